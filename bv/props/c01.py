"""C01 Primitive values survive encoding unchanged and are never silently altered.

E3: bounded-exhaustive enumeration of (primitive class, constructor argument, tagging mode) against
bv.refs.tagref, an independent encoder/decoder of clause 20.2.

For every case:   obj = K(arg) -> obj.encode(Tag) -> [Tag.app_to_context(n)] -> Tag.encode(PDUData) -> octets
                  octets -> Tag(PDUData) -> [Tag.context_to_app(kind)] -> K(tag) -> value
  * a value outside the type (reference: Unrepresentable / outside the sub-range of the class) must be refused
    by the constructor or by the encoder (any exception); emitting octets is the violation;
  * a value inside the domain bacpypes claims (32-bit integers, every octet tuple, ...) must be accepted;
  * emitted octets must be byte-identical to the reference (canonical form), must decode (bacpypes and
    reference) to the value that went in, the buffer must be empty afterwards, context_to_app must give back
    the application tag, Tag.app_to_object must build the base class with the same value.
"""
import importlib
import pkgutil
import time
import traceback

import bv  # noqa: F401
import bacpypes
from bacpypes.pdu import PDUData
from bacpypes.primitivedata import Atomic, Tag

from bv.engine.acc import Acc
from bv.engine.pool import run_shards, HarnessError
from bv.refs import tagref as R

PROPERTY = "C01"
LEVEL = "exploration"
BUDGET = {"quick": 55.0, "thorough": 840.0}
RULE = ("every (Atomic subclass found by walking Atomic.__subclasses__() over all bacpypes modules, constructor "
        "argument of the class' boundary alphabet, tagging mode) is one case; alphabets are de-duplicated per class, "
        "so a case is distinct by (class, argument, mode); modes are application tagging and context tagging with "
        "numbers {0,14,15,254}; three representative arguments per class are crossed with every context number "
        "0..254; an argument the constructor refuses is evaluated once (mode independent); outcomes are labelled by "
        "kind x tagging x (ok + contents-length class | refused at constructor | refused at encoder)"
        "  extras: eight values x context numbers outside the octet {255,256,257,270,511,65535,65536,-1,-15,-256} "
        "(refused, or decodes to that number); enumerations derived from ~12 library enumerations and a fresh one, parent "
        "used first and derived class used first: every name and number of the derived class and of the parent.")
ASSUMPTIONS = [
    "value identity is the Python-side .value of the primitive (Enumerated: the number behind the name; two names "
    "of one number are one value); constructor conversions (str->int, int->float, name->bit) are not judged",
    "Real: the 4-octet IEEE form prescribed by the statement is the round-to-nearest-even binary32 of the double; "
    "decode must give exactly that number; a finite double that rounds beyond the binary32 range must be refused",
    "all NaNs are one value (payload and signalling bit are not compared); +0.0 and -0.0 are different values",
    "domains that must be accepted: Unsigned/Enumerated 0..2^32-1, Integer -2^31..2^31-1, Date/Time any four octets, "
    "object type 0..1023 x instance 0..2^22-1, any bit/octet/UTF-8 string; beyond them the implementation may either "
    "refuse or emit the reference octets",
    "sub-range classes: Unsigned8 0..255, Unsigned16 0..65535, AccessThreatLevel 0..100 must refuse other numbers",
    "interior values outside the alphabets (e.g. one particular 27-bit integer) are not covered",
    "the reference (bv/refs/tagref.py) is written from clause 20.2; its IEEE rounding is cross-checked against "
    "struct at start-up (harness error if they disagree)",
]
BOUNDS = {
    "quick": "Unsigned/Enumerated 0..5000, Integer -5000..5000, + all 8-bit length boundaries +-3 up to 2^32 / 2^39, "
             "Real/Double all 65536 upper-16-bit patterns + low-bit and rounding probes, BitString all vectors of "
             "length 0..10 + patterned 11..64 + length-escape sizes, Date/Time 12^4 octet tuples, ObjectIdentifier "
             "1024 types x 26 instances, Octet/CharacterString lengths 0..6, 251..256, 65533..65536, all strings of "
             "length <=3 over a 6 character alphabet, inbound character sets 3/4/5, every enumeration name and number of "
             "every table; modes app + ctx{0,14,15,254}; 3 representatives per class x ctx 0..254",
    "thorough": "as quick with Unsigned/Enumerated 0..70000 and Integer -70000..70000, plus string length 70000; the "
                "length-boundary arguments of the base classes (integers beyond the dense range, every octet string, the "
                "position-dependent character strings, bit strings longer than 64) are crossed with every context 0..254",
}

STD_MODES = (None, 0, 14, 15, 254)
ALL_MODES = (None,) + tuple(range(255))

SUBRANGE = {"Unsigned8": (0, 255), "Unsigned16": (0, 65535), "AccessThreatLevel": (0, 100)}
U32 = (1 << 32) - 1

# ----------------------------------------------------------------------------- classes under test

_MODULES = ["bacpypes.primitivedata", "bacpypes.constructeddata", "bacpypes.basetypes", "bacpypes.apdu",
            "bacpypes.object", "bacpypes.npdu", "bacpypes.bvll"]
_CLASSES = None


def classes():
    """qualified name -> class, for every subclass of Atomic reachable after importing all of bacpypes."""
    global _CLASSES
    if _CLASSES is not None:
        return _CLASSES
    for m in _MODULES:
        importlib.import_module(m)
    for m in pkgutil.walk_packages(bacpypes.__path__, "bacpypes."):
        try:
            importlib.import_module(m.name)
        except Exception:
            pass
    found = {}

    def walk(c):
        for s in c.__subclasses__():
            if not s.__module__.startswith("bacpypes."):
                continue
            found["%s.%s" % (s.__module__, s.__name__)] = s
            walk(s)

    walk(Atomic)
    _CLASSES = dict(sorted(found.items()))
    return _CLASSES


def enum_table(K):
    """name -> number from the `enumerations` dictionaries (data) of the class and its bases, nearest class first."""
    tab = {}
    for c in K.__mro__:
        for name, number in c.__dict__.get("enumerations", {}).items():
            tab.setdefault(name, number)
    return tab


_ENUM_TABLES = {}


def etab(K):
    t = _ENUM_TABLES.get(K)
    if t is None:
        t = _ENUM_TABLES[K] = enum_table(K)
    return t


# ----------------------------------------------------------------------------- argument specs

def pos_bytes(n, seed):
    """n octets, every 3-octet window distinct over short ranges (position dependent)."""
    return bytes(((i * 131) ^ (i >> 8) * 29 ^ (i >> 16) * 7 ^ seed) & 0xFF for i in range(n))


def pos_text(n, seed):
    return "".join(chr(33 + ((i * 37 + (i >> 6) + seed) % 90)) for i in range(n))


def mk_arg(spec, seed=0):
    k = spec[0]
    if k == "int":
        return spec[1]
    if k == "f32":
        return R.ieee_value(spec[1], 8, 23)
    if k == "f64":
        return R.ieee_value(spec[1], 11, 52)
    if k == "bytes":
        return pos_bytes(spec[1], seed)
    if k == "raw":
        return bytes(spec[1])
    if k == "text":
        return spec[1]
    if k == "postext":
        return pos_text(spec[1], seed)
    if k in ("bits", "names"):
        return list(spec[1])
    if k == "name":
        return spec[1]
    if k == "tuple":
        return tuple(spec[1])
    if k == "none":
        return None
    if k == "bool":
        return bool(spec[1])
    raise HarnessError("unknown argument spec %r" % (spec,))


def freeze(x):
    if isinstance(x, (list, tuple)):
        return tuple(freeze(i) for i in x)
    return x


def expect(K, kind, spec, seed=0):
    """What the standard says about the argument: ("refuse", why) the value is not a value of the type;
    ("value", reference value, must_accept)."""
    k = spec[0]
    name = K.__name__
    if kind == R.NULL:
        return ("value", None, True)
    if kind == R.BOOLEAN:
        if k == "bool":
            return ("value", bool(spec[1]), True)
        return ("value", spec[1] in ("True", "true"), True)
    if kind in (R.UNSIGNED, R.ENUM):
        if k == "name":
            if spec[1] not in etab(K):
                return ("refuse", "name is not in the enumeration")
            return ("value", etab(K)[spec[1]], True)
        n = spec[1]
        if n < 0:
            return ("refuse", "negative")
        if name in SUBRANGE and not (SUBRANGE[name][0] <= n <= SUBRANGE[name][1]):
            return ("refuse", "outside the range of %s" % name)
        return ("value", n, n <= U32)
    if kind == R.INTEGER:
        n = spec[1]
        return ("value", n, -(1 << 31) <= n <= (1 << 31) - 1)
    if kind in (R.REAL, R.DOUBLE):
        if k == "int":
            try:
                x = float(spec[1])
            except OverflowError:
                return ("refuse", "integer beyond the double range")
        else:
            x = mk_arg(spec)
        if kind == R.REAL:
            try:
                R.ieee_bits(x, 8, 23)
            except R.Unrepresentable:
                return ("refuse", "finite number beyond the binary32 range")
        return ("value", x, True)
    if kind == R.OCTETS:
        return ("value", mk_arg(spec, seed), True)
    if kind == R.CHARS:
        text = mk_arg(spec, seed)
        try:
            R.content_chars(0, text)
        except R.Unrepresentable:
            return ("refuse", "text has no UTF-8 form")
        return ("value", (0, text), True)
    if kind == R.BITS:
        if k == "names":
            bits = [0] * K.bitLen
            for nm in spec[1]:
                pos = K.bitNames[nm]
                if pos >= len(bits):
                    return ("refuse", "named bit beyond bitLen")
                bits[pos] = 1
            return ("value", tuple(bits), True)
        return ("value", tuple(spec[1]), True)
    if kind in (R.DATE, R.TIME):
        t = tuple(spec[1])
        if any(not (0 <= x <= 255) for x in t):
            return ("refuse", "element is not an octet")
        return ("value", t, True)
    if kind == R.OBJID:
        if k == "int":
            w = spec[1]
            return ("value", (w >> 22, w & 0x3FFFFF), True)
        otype, inst = spec[1]
        if isinstance(otype, str):
            tab = etab(K.objectTypeClass)
            if otype not in tab:
                return ("refuse", "unknown object type name")
            otype = tab[otype]
        if not (0 <= otype <= 1023) or not (0 <= inst <= 0x3FFFFF):
            return ("refuse", "type or instance out of range")
        return ("value", (otype, inst), True)
    raise HarnessError("no expectation for kind %r" % (kind,))


def to_ref(K, kind, obj):
    """Reference-side value of a bacpypes primitive (reads plain attributes only)."""
    v = obj.value
    if kind == R.NULL:
        return None if v == () else ("not-null", v)
    if kind == R.BOOLEAN:
        return v
    if kind in (R.UNSIGNED, R.INTEGER):
        return v
    if kind == R.ENUM:
        return etab(K)[v] if isinstance(v, str) else v
    if kind in (R.REAL, R.DOUBLE):
        return v
    if kind == R.OCTETS:
        return bytes(v)
    if kind == R.CHARS:
        return (obj.strEncoding, v)
    if kind == R.BITS:
        return tuple(int(b) for b in v)
    if kind in (R.DATE, R.TIME):
        return tuple(v)
    if kind == R.OBJID:
        otype, inst = v
        if isinstance(otype, str):
            otype = etab(K.objectTypeClass)[otype]
        return (otype, inst)
    raise HarnessError("no value mapping for kind %r" % (kind,))


# ----------------------------------------------------------------------------- alphabets

def ints_unsigned(top):
    s = list(range(0, top + 1))
    for k in (1, 2, 3, 4):
        for d in range(-3, 4):
            s.append(256 ** k + d)
    s += [2 ** 32 + 1, 2 ** 40, 2 ** 64, -1, -256]
    return s[:top + 1] + sorted(set(s[top + 1:]), key=lambda n: (abs(n), n < 0))


def ints_signed(top):
    s = list(range(-top, top + 1))
    for k in (1, 2, 3, 4, 5):
        for d in range(-3, 4):
            s.append(2 ** (8 * k - 1) + d)
            s.append(-(2 ** (8 * k - 1)) + d)
    s += [2 ** 32, -(2 ** 32), 2 ** 32 - 1, 2 ** 63, -(2 ** 63) - 1, 2 ** 64]
    return s[:2 * top + 1] + sorted(set(s[2 * top + 1:]), key=lambda n: (abs(n), n < 0))


def f32_specs():
    out = []
    for hi in range(65536):
        b = hi << 16
        if R.is_nan_bits(b, 8, 23) and b not in (0x7FC00000, 0xFFC00000, 0x7F810000):
            continue
        out.append(["f32", b])
    for b in (1, 2, 0x007FFFFF, 0x00800000, 0x00800001, 0x3F800001, 0x3FFFFFFF, 0x7F7FFFFF, 0x7F7FFFFE, 0x00ABCDEF,
              0x12345678, 0x4B000001, 0x4B7FFFFF, 0x7FC00001):
        out.append(["f32", b])
        out.append(["f32", b | 0x80000000])
    # doubles that are not binary32 numbers: ties, just above / below ties, range ends, subnormal edge
    probes = [0.1, 1.0 / 3, 1 + 2.0 ** -24, 1 + 2.0 ** -24 + 2.0 ** -52, 1 + 3 * 2.0 ** -24, 1 + 2.0 ** -23 - 2.0 ** -52,
              2.0 ** -149, 2.0 ** -150, 2.0 ** -150 * (1 + 2.0 ** -52), 3 * 2.0 ** -150, 2.0 ** -126 * (1 - 2.0 ** -24),
              2.0 ** -126 * (1 - 2.0 ** -25), 5e-324, 1e-46, 3.4028234663852886e38, 3.4028235677973362e38,
              3.4028235677973366e38, 3.5e38, 1e39, 1.7976931348623157e308, 16777217.0, 123456.789, 2.0 ** -1074]
    for x in probes:
        out.append(["f64", R.ieee_bits(x, 11, 52)])
        out.append(["f64", R.ieee_bits(-x, 11, 52)])
    for n in (0, 1, -1, 2 ** 24 + 1, 2 ** 127, 2 ** 128, -(2 ** 128), 10 ** 400):
        out.append(["int", n])
    return out


def f64_specs():
    out = []
    for hi in range(65536):
        b = hi << 48
        if R.is_nan_bits(b, 11, 52) and b not in (0x7FF8 << 48, 0xFFF8 << 48, 0x7FF1 << 48):
            continue
        out.append(["f64", b])
    for b in (1, 2, 0x000FFFFFFFFFFFFF, 0x0010000000000000, 0x3FF0000000000001, 0x3FFFFFFFFFFFFFFF, 0x7FEFFFFFFFFFFFFF,
              0x123456789ABCDEF0, 0x3FB999999999999A, 0x7FF8000000000001):
        out.append(["f64", b])
        out.append(["f64", b | (1 << 63)])
    for n in (0, 1, -1, 2 ** 53 + 1, 2 ** 1023, 10 ** 400):
        out.append(["int", n])
    return out


def bit_patterns(L):
    pats = [[0] * L, [1] * L, [i & 1 for i in range(L)], [1 - (i & 1) for i in range(L)]]
    for p in range(L):
        v = [0] * L
        v[p] = 1
        pats.append(v)
    return pats


def bits_specs(K, tier):
    out = []
    if K.__name__ == "BitString":
        for L in range(0, 11):
            for v in range(1 << L):
                out.append(["bits", [(v >> (L - 1 - i)) & 1 for i in range(L)]])
        for L in range(11, 65):
            for p in bit_patterns(L):
                out.append(["bits", p])
        for L in (65, 127, 128, 129, 2015, 2016, 2017, 2024, 2025):
            out.append(["bits", [1] * L])
            out.append(["bits", [i & 1 for i in range(L)]])
            out.append(["bits", [0] * (L - 1) + [1]])
    else:
        for L in range(0, 6):
            for v in range(1 << L):
                out.append(["bits", [(v >> (L - 1 - i)) & 1 for i in range(L)]])
        for L in sorted(set([max(K.bitLen - 1, 0), K.bitLen, K.bitLen + 1])):
            for p in bit_patterns(L):
                out.append(["bits", p])
        names = sorted(K.bitNames, key=lambda n: (K.bitNames[n], n))
        for nm in names:
            out.append(["names", [nm]])
        if names:
            out.append(["names", names])
            out.append(["names", names[:2]])
            out.append(["names", names[::2]])
    return out


GRID = (0, 1, 12, 13, 14, 31, 32, 33, 34, 99, 254, 255)


def four_specs():
    out = []
    for a in GRID:
        for b in GRID:
            for c in GRID:
                for d in GRID:
                    out.append(["tuple", [a, b, c, d]])
    for bad in ([256, 1, 1, 1], [1, 1, 1, 256], [-1, 1, 1, 1], [1, 2, -1, 4], [1, 300, 1, 1]):
        out.append(["tuple", bad])
    return out


def objid_specs(K):
    insts = [0, 1] + [2 ** k for k in range(1, 22)] + [2 ** 22 - 2, 2 ** 22 - 1]
    out = []
    for t in range(1024):
        for i in insts:
            out.append(["tuple", [t, i]])
    tab = etab(K.objectTypeClass)
    for nm in sorted(tab, key=lambda n: (tab[n], n)):
        for i in (0, 1, 2 ** 22 - 1):
            out.append(["tuple", [nm, i]])
    for t in (0, 1, 8, 127, 128, 1023):
        for i in (0, 1, 2 ** 22 - 1):
            out.append(["int", (t << 22) | i])
    for bad in ([1024, 0], [-1, 0], [0, 2 ** 22], [0, -1], [1023, 2 ** 22], [2048, 5], ["noSuchObjectType", 0]):
        out.append(["tuple", bad])
    return out


def octets_specs(tier):
    lens = list(range(0, 7)) + [251, 252, 253, 254, 255, 256, 65533, 65534, 65535, 65536]
    if tier == "thorough":
        lens.append(70000)
    out = [["bytes", n] for n in lens]
    out += [["raw", b"\x00"], ["raw", b"\xff"], ["raw", bytes(range(256))]]
    return out


# one character per UTF-8 length class and per class of character that text codecs like to treat specially: NUL, DEL, the
# first two-octet character, the byte order mark / zero width no-break space, the replacement character, the last BMP and
# the last Unicode code point, blank, line feed, a combining mark
CHAR_ALPHABET = ("a", "é", "€", "\U0001F600", "\x00", "\x7f", "\ufeff", "\ufffd", "\uffff", "\U0010ffff", "\x80", " ", "\n",
                 "\u0300")


def chars_specs(tier):
    lens = list(range(0, 7)) + [250, 251, 252, 253, 254, 255, 256, 65533, 65534, 65535, 65536]
    if tier == "thorough":
        lens.append(70000)
    out = [["postext", n] for n in lens]
    for a in CHAR_ALPHABET:
        out.append(["text", a])
        for b in CHAR_ALPHABET:
            out.append(["text", a + b])
            for c in CHAR_ALPHABET:
                out.append(["text", a + b + c])
    # UTF-8 byte lengths that straddle the 253/254 contents-length escape with multi-byte characters
    for n in (83, 84, 85):
        out.append(["text", "€" * n])          # 3 octets each: 249, 252, 255 (+1 character-set octet)
    for n in (125, 126, 127):
        out.append(["text", "é" * n + "z"])    # 251, 253, 255 (+1)
    out.append(["text", "a\ud800"])             # lone surrogate: no UTF-8 form, must be refused
    return out


def enum_specs(K, tier, top):
    if K.__name__ == "Enumerated":
        return [["int", n] for n in ints_unsigned(top)] + [["name", "noSuchEnumerationName"]]
    tab = etab(K)
    out = [["name", nm] for nm in sorted(tab, key=lambda n: (tab[n], n))] + [["name", "noSuchEnumerationName"]]
    numbers = sorted(set(tab.values()))
    out += [["int", n] for n in numbers]
    unused = [n for n in range(0, (max(numbers) if numbers else 0) + 2) if n not in set(numbers)][:3]
    extra = unused + [255, 256, 65535, 65536, 2 ** 24 - 1, 2 ** 24, 2 ** 32 - 1, 2 ** 32, 2 ** 40, -1]
    seen = set(numbers)
    for n in extra:
        if n not in seen:
            seen.add(n)
            out.append(["int", n])
    return out


REPRESENTATIVES = {
    R.NULL: [["none"]],
    R.BOOLEAN: [["bool", True], ["bool", False]],
    R.UNSIGNED: [["int", 0], ["int", 100], ["int", 256], ["int", 2 ** 32 - 1]],
    R.INTEGER: [["int", 0], ["int", -129], ["int", 2 ** 31 - 1]],
    R.REAL: [["f32", 0], ["f32", 0xBFC00000], ["f32", 0x7F800000]],
    R.DOUBLE: [["f64", 0], ["f64", 0xBFF8000000000000], ["f64", 0x7FEFFFFFFFFFFFFF]],
    R.OCTETS: [["bytes", 0], ["bytes", 5], ["bytes", 254]],
    R.CHARS: [["text", ""], ["text", "a€z"], ["postext", 253]],
    R.BITS: [["bits", []], ["bits", [1, 0, 1]], ["bits", [1] * 17]],
    R.ENUM: [["int", 0], ["int", 255], ["int", 65536]],
    R.DATE: [["tuple", [0, 1, 1, 1]], ["tuple", [124, 13, 32, 255]], ["tuple", [255, 255, 255, 255]]],
    R.TIME: [["tuple", [0, 0, 0, 0]], ["tuple", [23, 59, 59, 99]], ["tuple", [255, 255, 255, 255]]],
    R.OBJID: [["tuple", [0, 0]], ["tuple", [8, 1234]], ["tuple", [1023, 2 ** 22 - 1]]],
}


def class_specs(K, tier):
    """[(spec, modes)] for one class, de-duplicated, simplest first."""
    kind = K._app_tag
    top = 5000 if tier == "quick" else 70000
    if kind == R.NULL:
        specs = [["none"], ["tuple", []]]
    elif kind == R.BOOLEAN:
        specs = [["bool", True], ["bool", False], ["text", "true"], ["text", "false"], ["text", "True"], ["text", "False"]]
    elif kind == R.UNSIGNED:
        specs = [["int", n] for n in ints_unsigned(top)]
    elif kind == R.INTEGER:
        specs = [["int", n] for n in ints_signed(top)]
    elif kind == R.REAL:
        specs = f32_specs()
    elif kind == R.DOUBLE:
        specs = f64_specs()
    elif kind == R.OCTETS:
        specs = octets_specs(tier)
    elif kind == R.CHARS:
        specs = chars_specs(tier)
    elif kind == R.BITS:
        specs = bits_specs(K, tier)
    elif kind == R.ENUM:
        specs = enum_specs(K, tier, top)
    elif kind in (R.DATE, R.TIME):
        specs = four_specs()
    elif kind == R.OBJID:
        specs = objid_specs(K)
    else:
        return []
    # three representative arguments per class are crossed with every context number
    if kind == R.ENUM and K.__name__ != "Enumerated":
        names = [s for s in specs if s[0] == "name"]
        nums = [s for s in specs if s[0] == "int" and 0 <= s[1] <= U32]
        rep_specs = names[:1] + nums[-1:] + [["int", 65536]]
    else:
        rep_specs = REPRESENTATIVES[kind]
    reps = set(freeze(s) for s in rep_specs)

    def every_context(s):
        """thorough: the length-boundary arguments of the base classes also meet every context number"""
        if tier != "thorough" or K.__name__ != Tag._app_tag_class[kind].__name__:
            return False
        if kind in (R.UNSIGNED, R.INTEGER, R.ENUM):
            return s[0] == "int" and abs(s[1]) > top
        if kind == R.OCTETS:
            return True
        if kind == R.CHARS:
            return s[0] == "postext"
        if kind == R.BITS:
            return len(s[1]) > 64
        return False

    out = []
    seen = set()
    for s in list(rep_specs) + specs:
        f = freeze(s)
        if f in seen:
            continue
        seen.add(f)
        out.append((s, ALL_MODES if (f in reps or every_context(s)) else STD_MODES))
    return out


INBOUND_TEXTS = ["", "A", "Az09", "éÿ", "€", "a€b", "\U0001F600", "\ufeffA", "A\ufeff", " A ", "x" * 62, "y" * 63, "z" * 64,
                 "w" * 126, "v" * 127, "u" * 252, "t" * 253]


def inbound_cases():
    """Decode-side character strings in the character sets bacpypes reads but never writes from a str."""
    out = []
    for cs in (3, 4, 5):
        for text in INBOUND_TEXTS:
            try:
                R.content_chars(cs, text)
            except R.Unrepresentable:
                continue
            out.append((cs, text))
    return out


# ----------------------------------------------------------------------------- one case

def len_class(n):
    if n < 5:
        return "len<5"
    if n <= 253:
        return "len5..253"
    if n <= 65535:
        return "len254..65535"
    return "len>65535"


def hexed(x):
    """bytes -> hex text inside details that are printed"""
    if isinstance(x, (bytes, bytearray)):
        return bytes(x).hex()
    if isinstance(x, dict):
        return {k: hexed(v) for k, v in x.items()}
    if isinstance(x, (list, tuple)):
        return [hexed(v) for v in x]
    return x


def short(x, n=80):
    r = repr(x)
    return r if len(r) <= n else r[:n] + "...(%d chars)" % len(r)


class CaseResult(object):
    __slots__ = ("label", "sig", "detail")

    def __init__(self, label, sig=None, detail=None):
        self.label = label
        self.sig = sig
        self.detail = detail

    def as_tuple(self):
        return (self.label, self.sig, repr(self.detail))


def build(K, kind, spec, seed):
    """Constructor + encode into an application tag.  -> (stage, obj, tag, exception)"""
    arg = mk_arg(spec, seed)
    try:
        obj = K(arg)
    except Exception as err:
        return "ctor", None, None, err
    try:
        tag = Tag()
        obj.encode(tag)
    except Exception as err:
        return "encode", obj, None, err
    return None, obj, tag, None


def check_mode(K, kind, spec, seed, exp, obj, tag, ctx):
    """One tagging mode of an argument the constructor and the primitive's encode() accepted."""
    kname = R.KIND_NAMES[kind]
    mode = "app" if ctx is None else "ctx"
    try:
        wire = tag if ctx is None else tag.app_to_context(ctx)
        pdu = PDUData()
        wire.encode(pdu)
        octets = bytes(pdu.pduData)
    except Exception as err:
        if exp[0] == "value" and exp[2]:
            return CaseResult("%s:%s:refused-at-tag-encode" % (kname, mode), "%s:representable-value-refused" % kname,
                              {"stage": "Tag.encode/app_to_context", "error": repr(err), "value": short(exp[1])})
        return CaseResult("%s:%s:refused-at-tag-encode:%s" % (kname, mode, type(err).__name__))

    if exp[0] == "refuse":
        try:
            shown = R.decode_value(kind, octets, ctx)
        except Exception as err:
            shown = "undecodable (%s)" % err
        return CaseResult("%s:%s:emitted-for-unrepresentable" % (kname, mode),
                          "%s:unrepresentable-value-emitted" % kname,
                          {"why": exp[1], "octets": octets[:24], "reference decodes them as": short(shown)})

    refv = exp[1]
    wirev = R.round_to_real(refv) if kind == R.REAL else refv

    # the constructor must not have changed what the argument denotes
    got0 = to_ref(K, kind, obj)
    if not R.same_value(kind, got0, refv):
        return CaseResult("%s:%s:constructor-alters" % (kname, mode), "%s:constructor-alters-value" % kname,
                          {"argument denotes": short(refv), "object holds": short(got0)})

    # canonical octets
    ref_octets = R.encode_value(kind, wirev, ctx)
    if kind in (R.REAL, R.DOUBLE) and wirev != wirev:
        # NaN: the tag octets are fixed, the contents may be any NaN pattern of the right size
        n = 4 if kind == R.REAL else 8
        same_octets = (len(octets) == len(ref_octets) and octets[:-n] == ref_octets[:-n]
                       and R.is_nan_bits(R.value_unsigned(octets[-n:]), 8 if n == 4 else 11, 23 if n == 4 else 52))
    else:
        same_octets = octets == ref_octets
    if not same_octets:
        try:
            back = R.decode_value(kind, octets, ctx)
        except Exception as err:
            back = err
        detail = {"value": short(refv), "emitted": octets[:24], "reference": ref_octets[:24],
                  "emitted octets mean": short(back), "emitted_len": len(octets), "reference_len": len(ref_octets)}
        # contents right, tag octets wrong: the root cause is Tag.encode / app_to_context, not the primitive
        if not (ctx is None and kind == R.BOOLEAN):
            content = R.content_of(kind, wirev)
            if (not content or octets.endswith(content)) and octets[:len(octets) - len(content)] != ref_octets[:len(ref_octets) - len(content)]:
                return CaseResult("tag:%s:header-differs" % mode,
                                  "tag:header-octets-differ-from-reference:%s" % ("application" if ctx is None else "context"), detail)
        if isinstance(back, Exception):
            return CaseResult("%s:%s:malformed" % (kname, mode), "%s:malformed-octets-emitted" % kname, detail)
        if not R.same_value(kind, back, wirev):
            if kind == R.INTEGER and not (-(1 << 31) <= refv <= (1 << 31) - 1):
                return CaseResult("integer:%s:wrapped" % mode, "integer:wraps-outside-32-bits", detail)
            return CaseResult("%s:%s:other-value" % (kname, mode), "%s:emits-octets-of-a-different-value" % kname, detail)
        return CaseResult("%s:%s:non-canonical" % (kname, mode), "%s:non-canonical-octets" % kname, detail)

    # decode what was emitted
    try:
        pdu2 = PDUData(octets)
        t2 = Tag(pdu2)
        if len(pdu2.pduData) != 0:
            return CaseResult("%s:%s:octets-left" % (kname, mode), "tag:octets-left-after-decoding-one-tag",
                              {"octets": octets[:24], "left": len(pdu2.pduData)})
        if ctx is None:
            apptag = t2
            if t2.tagClass != Tag.applicationTagClass or t2.tagNumber != kind:
                return CaseResult("%s:%s:wrong-tag" % (kname, mode), "tag:decoded-class-or-number-differs",
                                  {"octets": octets[:24], "class": t2.tagClass, "number": t2.tagNumber})
        else:
            if t2.tagClass != Tag.contextTagClass or t2.tagNumber != ctx:
                return CaseResult("%s:%s:wrong-tag" % (kname, mode), "tag:decoded-class-or-number-differs",
                                  {"octets": octets[:24], "class": t2.tagClass, "number": t2.tagNumber, "context": ctx})
            apptag = t2.context_to_app(kind)
            if not (apptag == tag) or apptag.tagLVT != tag.tagLVT or bytes(apptag.tagData) != bytes(tag.tagData):
                return CaseResult("%s:%s:not-inverse" % (kname, mode), "%s:context-to-app-not-inverse-of-app-to-context" % kname,
                                  {"application tag": (tag.tagClass, tag.tagNumber, tag.tagLVT, bytes(tag.tagData)[:24]),
                                   "after the round trip": (apptag.tagClass, apptag.tagNumber, apptag.tagLVT, bytes(apptag.tagData)[:24])})
        obj2 = K(apptag)
    except Exception as err:
        return CaseResult("%s:%s:own-octets-rejected" % (kname, mode), "%s:own-octets-not-decodable" % kname,
                          {"value": short(refv), "octets": octets[:24], "error": repr(err)})
    got = to_ref(K, kind, obj2)
    if not R.same_value(kind, got, wirev):
        return CaseResult("%s:%s:decoded-differs" % (kname, mode), "%s:decoded-value-differs" % kname,
                          {"value": short(wirev), "decoded": short(got), "octets": octets[:24]})
    # Python-side value identity
    note = ""
    v1, v2 = obj.value, obj2.value
    if kind == R.REAL:
        v1 = wirev
    if kind in (R.REAL, R.DOUBLE):
        same = R.same_value(kind, v1, v2)
    elif kind == R.CHARS:
        same = (v1 == v2) and obj.strEncoding == obj2.strEncoding and bytes(obj.strValue) == bytes(obj2.strValue)
    else:
        same = (v1 == v2)
    if not same:
        if kind == R.ENUM and isinstance(v1, str) and isinstance(v2, str):
            note = ":second-name-of-the-number-comes-back"
        else:
            return CaseResult("%s:%s:python-value-differs" % (kname, mode), "%s:decoded-python-value-differs" % kname,
                              {"before": short(v1), "after": short(v2)})
    # Tag.app_to_object builds the base class
    try:
        o3 = apptag.app_to_object()
        base = Tag._app_tag_class[kind]
        if type(o3) is not base or not R.same_value(kind, to_ref(base, kind, o3), wirev):
            return CaseResult("%s:%s:app-to-object-differs" % (kname, mode), "%s:app-to-object-differs" % kname,
                              {"value": short(wirev), "object": short(getattr(o3, "value", o3)), "type": type(o3).__name__})
    except Exception as err:
        return CaseResult("%s:%s:app-to-object-raises" % (kname, mode), "%s:app-to-object-raises" % kname,
                          {"value": short(wirev), "error": repr(err)})
    clen = len(octets) if ctx is None and kind == R.BOOLEAN else len(tag.tagData) if ctx is None else len(wire.tagData)
    return CaseResult("%s:%s:ok:%s%s" % (kname, mode, len_class(clen), note))


def check_spec(K, spec, modes, seed):
    """-> list of (ctx or 'ctor', CaseResult)"""
    kind = K._app_tag
    kname = R.KIND_NAMES[kind]
    exp = expect(K, kind, spec, seed)
    stage, obj, tag, err = build(K, kind, spec, seed)
    if stage is not None:
        where = "constructor" if stage == "ctor" else "encoder"
        if exp[0] == "value" and exp[2]:
            return [(stage, CaseResult("%s:refused-by-%s" % (kname, where), "%s:representable-value-refused" % kname,
                                       {"stage": where, "error": repr(err), "value": short(exp[1])}))]
        return [(stage, CaseResult("%s:refused-by-%s:%s:%s" % (kname, where, type(err).__name__,
                                                                 "outside-type" if exp[0] == "refuse" else "beyond-claimed-domain")))]
    return [(ctx, check_mode(K, kind, spec, seed, exp, obj, tag, ctx)) for ctx in modes]


def check_inbound(cs, text, ctx):
    """Decode side: a character string in character set 3/4/5 must decode to the text and re-encode to the octets."""
    from bacpypes.primitivedata import CharacterString
    octets = R.encode_value(R.CHARS, (cs, text), ctx)
    mode = "app" if ctx is None else "ctx"
    try:
        pdu = PDUData(octets)
        t = Tag(pdu)
        if len(pdu.pduData):
            return CaseResult("inbound:octets-left", "tag:octets-left-after-decoding-one-tag", {"octets": octets[:24]})
        app = t if ctx is None else t.context_to_app(R.CHARS)
        obj = CharacterString(app)
        if obj.value != text or obj.strEncoding != cs:
            return CaseResult("inbound:differs", "characterstring:inbound-charset-%d-decoded-differs" % cs,
                              {"text": short(text), "decoded": short(obj.value), "charset": obj.strEncoding})
        t2 = Tag()
        obj.encode(t2)
        wire = t2 if ctx is None else t2.app_to_context(ctx)
        out = PDUData()
        wire.encode(out)
        if bytes(out.pduData) != octets:
            return CaseResult("inbound:reencode-differs", "characterstring:inbound-charset-%d-reencoded-differs" % cs,
                              {"octets": octets[:24], "reencoded": bytes(out.pduData)[:24]})
        copy = CharacterString(obj)
        if copy.value != text or copy.strEncoding != cs or bytes(copy.strValue) != bytes(obj.strValue):
            return CaseResult("inbound:copy-differs", "characterstring:copy-constructor-alters-value", {"text": short(text)})
    except Exception as err:
        return CaseResult("inbound:raises", "characterstring:inbound-charset-%d-raises" % cs,
                          {"octets": octets[:24], "error": repr(err)})
    return CaseResult("characterstring:%s:inbound-charset-%d:ok:%s" % (mode, cs, len_class(len(octets))))


def check_anyatomic(Kname, spec, seed):
    """AnyAtomic wraps any primitive: encode delegates, decode goes through Tag.app_to_object."""
    from bacpypes.constructeddata import AnyAtomic
    K = classes()[Kname]
    kind = K._app_tag
    exp = expect(K, kind, spec, seed)
    try:
        inner = K(mk_arg(spec, seed))
    except Exception as err:
        # the value part of the check judges refusals; there is nothing to wrap here
        return CaseResult("anyatomic:%s:inner-value-refused:%s" % (R.KIND_NAMES[kind], type(err).__name__))
    try:
        a = AnyAtomic(inner)
        tag = Tag()
        a.encode(tag)
        pdu = PDUData()
        tag.encode(pdu)
        octets = bytes(pdu.pduData)
        wirev = R.round_to_real(exp[1]) if kind == R.REAL else exp[1]
        ref_octets = R.encode_value(kind, wirev, None)
        if octets != ref_octets:
            return CaseResult("anyatomic:octets-differ", "anyatomic:octets-differ-from-reference",
                              {"emitted": octets[:24], "reference": ref_octets[:24]})
        b = AnyAtomic(Tag(PDUData(octets)))
        base = Tag._app_tag_class[kind]
        if type(b.value) is not base or not R.same_value(kind, to_ref(base, kind, b.value), wirev):
            return CaseResult("anyatomic:decoded-differs", "anyatomic:decoded-value-differs",
                              {"value": short(wirev), "decoded": short(b.value.value)})
    except Exception as err:
        return CaseResult("anyatomic:raises", "anyatomic:raises", {"error": repr(err), "value": short(exp[1])})
    return CaseResult("anyatomic:%s:ok" % R.KIND_NAMES[kind])


# ----------------------------------------------------------------------------- shards

_WORK = []      # filled by run() before the workers are forked: (class name, spec, modes)
_SEED = 0


def record(acc, key, res, case):
    acc.outcome(res.label)
    if res.sig is not None:
        acc.fail(res.sig, res.detail, case)


def shard(item, deadline):
    """A crash of the harness itself is carried home in the Acc and raised by run() after the pool has ended
    normally (terminating a pool that still has large results in flight was seen to deadlock)."""
    try:
        return shard_body(item, deadline)
    except HarnessError as err:
        acc = Acc()
        acc.info["harness_error"] = ["%s" % err]
        return acc
    except Exception as err:
        acc = Acc()
        acc.info["harness_error"] = ["shard %r: %r\n%s" % (item, err, traceback.format_exc())]
        return acc


def shard_body(item, deadline):
    kindtag, lo, hi = item
    acc = Acc()
    cls = classes()
    if kindtag == "inbound":
        todo = inbound_cases()[lo:hi]
        for (cs, text) in todo:
            for ctx in STD_MODES:
                res = check_inbound(cs, text, ctx)
                acc.case(("inbound", cs, text, ctx))
                record(acc, None, res, {"part": "inbound", "charset": cs, "text": text, "ctx": ctx})
        acc.add_info("inbound character string cases", len(todo) * len(STD_MODES))
        return acc
    if kindtag == "anyatomic":
        n = 0
        for Kname, K in cls.items():
            if K._app_tag is None or K.__name__ != Tag._app_tag_class[K._app_tag].__name__:
                continue
            for spec in REPRESENTATIVES[K._app_tag]:
                res = check_anyatomic(Kname, spec, _SEED)
                acc.case(("anyatomic", Kname, freeze(spec)))
                record(acc, None, res, {"part": "anyatomic", "cls": Kname, "spec": spec})
                n += 1
        acc.add_info("AnyAtomic cases", n)
        return acc
    # determinism probe: the first cases of the block give the same result twice
    for idx in range(lo, min(hi, lo + 20)):
        Kname, spec, modes = _WORK[idx]
        a = [(m, r.as_tuple()) for m, r in check_spec(cls[Kname], spec, modes[:2], _SEED)]
        b = [(m, r.as_tuple()) for m, r in check_spec(cls[Kname], spec, modes[:2], _SEED)]
        if a != b:
            raise HarnessError("C01 case %r %r evaluated twice gave %r and %r" % (Kname, spec, a, b))
    for idx in range(lo, hi):
        if (idx & 0x3FF) == 0 and time.time() > deadline:
            acc.cap("deadline inside a block (%d of %d arguments of the block done)" % (idx - lo, hi - lo))
            break
        Kname, spec, modes = _WORK[idx]
        for m, res in check_spec(cls[Kname], spec, modes, _SEED):
            mi = 600 if m == "ctor" else 601 if m == "encode" else 0 if m is None else m + 1
            acc.case(idx * 1024 + mi)
            record(acc, None, res, {"part": "value", "cls": Kname, "spec": spec, "ctx": m})
    return acc


# ----------------------------------------------------------------------------- entry points

def build_work(tier):
    work = []
    per_class = {}
    for Kname, K in classes().items():
        if K._app_tag is None:
            continue
        specs = class_specs(K, tier)
        per_class[Kname] = len(specs)
        for s, modes in specs:
            work.append((Kname, s, modes))
    return work, per_class



# ----------------------------------------------------------------------------- bit strings filled bit by bit

def bit_assignment_shard(item, deadline):
    """A bit string built by item assignment (`flags[i] = reg & 0x02`, `flags['fault'] = count`): whatever truthy thing is
    assigned the bit is set, whatever falsy thing the bit is clear; the object must hold bits, and its octets must be the
    canonical encoding of exactly those bits (or the assignment / the encoder refuses)."""
    import bacpypes.primitivedata as PD
    import bacpypes.basetypes as BT
    acc = Acc()
    classes = [PD.BitString] + sorted([k for k in vars(BT).values()
                                       if isinstance(k, type) and issubclass(k, PD.BitString) and k is not PD.BitString and getattr(k, "bitLen", 0)],
                                      key=lambda k: k.__name__)
    values = (1, 2, 16, 128, 255, 256, True, 0, False)
    for K in classes:
        L = 10 if K is PD.BitString else K.bitLen
        names = dict((v, k) for k, v in getattr(K, "bitNames", {}).items())
        for base in (0, 1):
            for pos in range(L):
                for v in values:
                    for by_name in ((False, True) if pos in names else (False,)):
                        acc.case(("bit-assign", K.__name__, base, pos, repr(v), by_name))
                        want = [base] * L
                        want[pos] = 1 if v else 0
                        case = {"kind": "bit-assign", "class": K.__name__, "base": base, "pos": pos, "value": repr(v), "by_name": by_name}
                        try:
                            obj = K([base] * L)
                            if by_name:
                                obj[names[pos]] = v
                            else:
                                obj[pos] = v
                        except Exception as err:
                            acc.outcome("bit-assign:refused-by-assignment")
                            continue
                        try:
                            t = Tag()
                            obj.encode(t)
                            pd = PDUData()
                            t.encode(pd)
                            octets = bytes(pd.pduData)
                        except Exception as err:
                            acc.outcome("bit-assign:refused-by-encoder")
                            continue
                        ref = R.encode_value(R.BITS, tuple(want))
                        if octets != ref:
                            acc.fail("bitstring:item-assignment-emits-octets-of-other-bits",
                                     {"class": K.__name__, "all_bits_were": base, "assigned": "[%d] = %r" % (pos, v), "object_holds": repr(list(obj.value))[:80],
                                      "emitted": octets.hex(), "canonical_for_the_bits_meant": ref.hex()}, case)
                        else:
                            acc.outcome("bit-assign:canonical")
    return acc


# ----------------------------------------------------------------------------- context numbers outside an octet, derived enumerations

OUTSIDE_CONTEXTS = (255, 256, 257, 270, 511, 65535, 65536, -1, -15, -256)


def extras_shard(item, deadline):
    """(a) a context number that does not fit the tag-number octet: the encoder refuses, or what it emits decodes to that
    very number and the same contents - never to another tag.  (b) enumerations derived from an enumeration (a vendor's
    extension of a standard one), with the parent used before the derived class and the other way round: every name and
    number of the derived class - its own and the inherited ones - is accepted, encodes to the number and decodes to the
    name; the parent does not learn the derived names."""
    import bacpypes.primitivedata as PD
    import bacpypes.basetypes as BT
    acc = Acc()
    # (a)
    values = (("Unsigned", 0), ("Unsigned", 300), ("Boolean", True), ("Null", ()), ("OctetString", b"\x01\x02\x03\x04\x05"),
              ("OctetString", bytes(range(256)) + b"xyz"), ("CharacterString", "abc"), ("Enumerated", 7))
    for kname, arg in values:
        K = getattr(PD, kname)
        for ctx in OUTSIDE_CONTEXTS:
            acc.case(("ctx-range", kname, repr(arg), ctx))
            case = {"kind": "extras", "sub": "ctx-range", "class": kname, "arg": repr(arg), "ctx": ctx}
            obj = K(arg)
            tag = Tag()
            obj.encode(tag)
            try:
                wire = tag.app_to_context(ctx)
                pd = PDUData()
                wire.encode(pd)
                octets = bytes(pd.pduData)
            except Exception:
                acc.outcome("ctx-range:refused")
                continue
            try:
                back = Tag(PDUData(octets))
                seen = (back.tagClass, back.tagNumber, bytes(back.tagData))
            except Exception as err:
                seen = "undecodable (%s)" % type(err).__name__
            want = (Tag.contextTagClass, ctx, bytes(wire.tagData))
            if seen != want:
                acc.fail("tag:context-number-outside-an-octet-emitted-as-another-tag",
                         {"class": kname, "value": repr(arg)[:40], "context": ctx, "emitted": octets[:12].hex(),
                          "decodes as (class, number, contents)": repr(seen)[:80]}, case)
            else:
                acc.outcome("ctx-range:emitted-and-decodes-to-the-same-number")
    # (b)
    parents = [k for k in sorted((k for k in vars(BT).values() if isinstance(k, type) and issubclass(k, PD.Enumerated)
                                  and k.__dict__.get("enumerations")), key=lambda k: k.__name__)]
    parents = parents[::max(1, len(parents) // 12)]

    class FreshParent(PD.Enumerated):
        enumerations = {"red": 0, "green": 1, "blue": 2}

    def judge(D, table, tagname, case):
        for name, number in sorted(table.items(), key=lambda kv: kv[1]):
            acc.case(("derived-enum", tagname, name))
            try:
                o = D(name)
                t = Tag()
                o.encode(t)
                pd = PDUData()
                t.encode(pd)
                octets = bytes(pd.pduData)
                by_number = D(number).value
                decoded = D(Tag(PDUData(octets))).value
            except Exception as err:
                acc.fail("enumerated:derived-class:name-or-number-of-the-class-refused",
                         {"class": tagname, "name": name, "number": number, "error": repr(err)[:120]}, case)
                continue
            ref = R.encode_value(R.ENUM, number)
            if octets != ref:
                acc.fail("enumerated:derived-class:octets-differ", {"class": tagname, "name": name, "emitted": octets.hex(),
                                                                    "reference": ref.hex()}, case)
            elif by_number != name or decoded != name:
                acc.fail("enumerated:derived-class:number-not-turned-into-its-name",
                         {"class": tagname, "name": name, "number": number, "from number": repr(by_number), "decoded": repr(decoded)}, case)
            else:
                acc.outcome("derived-enum:ok")

    for order in ("parent-first", "derived-first"):
        for P in parents + [FreshParent]:
            ptab = enum_table(P)
            top = max(ptab.values())
            own = {"bvVendorOne": top + 1, "bvVendorTwo": top + 1000, "bvVendorBig": 4194303}
            if order == "derived-first":
                # a parent class nobody has used yet
                P = type("Fresh" + P.__name__, (PD.Enumerated,), {"enumerations": dict(ptab)})
            else:
                P(sorted(ptab)[0])
            D = type("Vendor" + P.__name__, (P,), {"enumerations": dict(own)})
            case = {"kind": "extras", "sub": "derived-enum", "parent": P.__name__, "order": order}
            full = dict(ptab)
            full.update(own)
            judge(D, full, "%s(%s),%s" % (D.__name__, P.__name__, order), case)
            judge(P, ptab, "%s,after-its-derived-class,%s" % (P.__name__, order), case)
            for name, number in own.items():
                acc.case(("derived-enum-parent", P.__name__, order, name))
                try:
                    P(name)
                    learnt = True
                except ValueError:
                    learnt = False
                if learnt or P(number).value != number:
                    acc.fail("enumerated:parent-learns-the-names-of-a-derived-class",
                             {"parent": P.__name__, "order": order, "name": name, "number": number}, case)
    return acc


def run(tier, seed, deadline):
    global _WORK, _SEED
    acc = Acc()
    bad = R.selftest()
    if bad:
        raise HarnessError("reference self-test failed: %r" % (bad,))
    _SEED = seed & 0xFF
    _WORK, per_class = build_work(tier)
    # blocks of about equal cost, interleaved over the classes' own order (simplest first inside a class)
    weights = [len(m) for (_, _, m) in _WORK]
    total = sum(weights)
    target = max(2000, total // 256)
    items = []
    lo = 0
    w = 0
    for i, wi in enumerate(weights):
        w += wi
        if w >= target:
            items.append(("value", lo, i + 1))
            lo = i + 1
            w = 0
    if lo < len(_WORK):
        items.append(("value", lo, len(_WORK)))
    items.append(("inbound", 0, 10 ** 6))
    items.append(("anyatomic", 0, 0))
    run_shards(shard, items, deadline, into=acc, ordered=True)
    run_shards(bit_assignment_shard, [0], deadline, into=acc)
    run_shards(extras_shard, [0], deadline, into=acc)
    if acc.info.get("harness_error"):
        raise HarnessError("C01 harness crashed in %d shard(s); first: %s" % (len(acc.info["harness_error"]), acc.info["harness_error"][0]))
    acc.info["classes"] = len(per_class)
    acc.info["arguments per class (largest)"] = dict(sorted(per_class.items(), key=lambda kv: -kv[1])[:14])
    acc.info["arguments"] = len(_WORK)
    acc.info["blocks"] = len(items)
    acc.info["observed, not judged"] = observations()
    for pick in (0, len(_WORK) // 3, len(_WORK) // 2, len(_WORK) - 1):
        Kname, spec, modes = _WORK[pick]
        acc.sample(describe(Kname, spec, modes[-1]))
    return acc


def observations():
    """Inputs at the edge of 'a value the type accepts' that the statement does not let us judge: written into
    the evidence, never a failing case."""
    from bacpypes.primitivedata import ObjectIdentifier, Date
    out = []

    def show(text, fn):
        try:
            out.append("%s -> %s" % (text, fn()))
        except Exception as err:
            out.append("%s -> raises %r" % (text, err))

    def wire(obj):
        t = Tag()
        obj.encode(t)
        p = PDUData()
        t.encode(p)
        return bytes(p.pduData).hex()

    show("ObjectIdentifier(2**32 + 5): the word form is masked to 32 bits by the constructor; holds",
         lambda: "%r, octets %s" % (ObjectIdentifier(2 ** 32 + 5).value, wire(ObjectIdentifier(2 ** 32 + 5))))
    show("ObjectIdentifier(-1): holds", lambda: "%r" % (ObjectIdentifier(-1).value,))
    show("Date((1, 2, 3)) (not four elements; Date.is_valid says False, the constructor takes it): octets",
         lambda: wire(Date((1, 2, 3))))
    return out


def describe(Kname, spec, ctx):
    K = classes()[Kname]
    kind = K._app_tag
    out = {"cls": Kname, "spec": spec if len(repr(spec)) < 200 else short(spec, 200), "ctx": ctx}
    stage, obj, tag, err = build(K, kind, spec, _SEED)
    if stage is not None:
        out["refused by"] = stage
        out["error"] = repr(err)
        return out
    try:
        wire = tag if ctx in (None, "ctor", "encode") else tag.app_to_context(ctx)
        pdu = PDUData()
        wire.encode(pdu)
        out["octets"] = bytes(pdu.pduData)[:32]
        out["octets_len"] = len(pdu.pduData)
    except Exception as e:
        out["error"] = repr(e)
    return out


def replay(case):
    global _SEED
    part = case.get("part", "value")
    if case.get("kind") == "bit-assign":
        a = bit_assignment_shard(0, time.time() + 120)
        mine = [c for ent in a.fails.values() for c in ent["cases"]
                if c["case"].get("class") == case["class"]]
        bad = any(ent["count"] for ent in a.fails.values())
        return not bad, "bit strings filled by item assignment (whole sweep re-run): %d failing signatures; e.g. %r" % (
            len(a.fails), (mine or [None])[0])
    if case.get("kind") == "extras":
        a = extras_shard(0, time.time() + 120)
        return not a.fails, "context numbers outside an octet and derived enumerations (whole sweep re-run): failing signatures %r" % (
            sorted(a.fails),)
    if part == "inbound":
        res = check_inbound(case["charset"], case["text"], case["ctx"])
        return res.sig is None, "inbound charset %r text %r ctx %r -> %s %r" % (
            case["charset"], short(case["text"]), case["ctx"], res.sig or res.label, res.detail)
    if part == "anyatomic":
        res = check_anyatomic(case["cls"], case["spec"], _SEED)
        return res.sig is None, "AnyAtomic(%s %r) -> %s %r" % (case["cls"], case["spec"], res.sig or res.label, res.detail)
    K = classes()[case["cls"]]
    spec = case["spec"]
    if spec[0] == "raw" and isinstance(spec[1], dict):
        spec = ["raw", bytes.fromhex(spec[1]["hex"])]
    ctx = case["ctx"]
    modes = (None,) if ctx in ("ctor", "encode") else (ctx,)
    lines = []
    ok = True
    for m, res in check_spec(K, spec, modes, _SEED):
        ok = ok and res.sig is None
        lines.append("%s(%s) mode=%s -> %s %r" % (case["cls"], short(spec, 120), "application" if m is None else m,
                                                   res.sig or res.label, hexed(res.detail)))
    lines.append("written out: %r" % (hexed(describe(case["cls"], spec, ctx)),))
    return ok, "\n".join(lines)
