"""S-APP: real Application stacks (Application -> ASAP -> SMAP -> NSAP -> vlan.Node) on a controlled LAN.

The client application records every confirmation / IOCB callback, the server application records
every indication and answers ConfirmedPrivateTransfer requests with a configured result block,
immediately, when the explorer says so, or never.
"""
import hashlib

import bv  # noqa: F401
from bacpypes.app import Application, ApplicationIOController, DeviceInfoCache
from bacpypes.appservice import StateMachineAccessPoint, ApplicationServiceAccessPoint
from bacpypes.netservice import NetworkServiceAccessPoint, NetworkServiceElement
from bacpypes.comm import bind
from bacpypes.pdu import Address
from bacpypes.vlan import Node
from bacpypes.local.device import LocalDeviceObject
from bacpypes.primitivedata import OctetString
from bacpypes.constructeddata import Any
from bacpypes.iocb import IOCB
from bacpypes.apdu import (ConfirmedPrivateTransferRequest, ConfirmedPrivateTransferACK, Error, RejectPDU,
                           AbortPDU, SimpleAckPDU, ComplexAckPDU, ErrorPDU, IAmRequest,
                           ConfirmedPrivateTransferError)
from bacpypes.basetypes import ErrorType

from bv.engine import vclock

_STREAMS = {}


def stream(tag, n):
    """n position-dependent octets: SHA-256 counter stream, every 8-octet window unique in practice."""
    buf = _STREAMS.get(tag, b"")
    if len(buf) < n:
        out = [buf]
        have = len(buf)
        ctr = have // 32
        while have < n:
            out.append(hashlib.sha256(("%s:%d" % (tag, ctr)).encode()).digest())
            have += 32
            ctr += 1
        buf = b"".join(out)
        _STREAMS[tag] = buf
    return buf[:n]


def make_device(name, ident, **kw):
    args = dict(objectName=name, objectIdentifier=("device", ident), vendorIdentifier=999,
                maxApduLengthAccepted=1024, segmentationSupported="segmentedBoth", maxSegmentsAccepted=64,
                numberOfApduRetries=3, apduTimeout=3000, apduSegmentTimeout=2000)
    args.update(kw)
    return LocalDeviceObject(**args)


def outcome_of(apdu):
    """Classify what an application was told."""
    if isinstance(apdu, AbortPDU):
        return "abort"
    if isinstance(apdu, RejectPDU):
        return "reject"
    if isinstance(apdu, ErrorPDU):
        return "error"
    if isinstance(apdu, (SimpleAckPDU, ComplexAckPDU)):
        return "ack"
    return "other:%s" % type(apdu).__name__


def payload_of(apdu):
    """Octets carried by a private-transfer request/ack (None if not decodable that way)."""
    for attr in ("serviceParameters", "resultBlock"):
        v = getattr(apdu, attr, None)
        if v is not None:
            try:
                return bytes(v.cast_out(OctetString))
            except Exception as err:
                return ("undecodable:%s" % type(err).__name__).encode()
    return None


class RecNode(Node):
    """vlan.Node that also records the instant (in causal order) at which the stack emitted a frame."""

    def __init__(self, addr, lan, events):
        Node.__init__(self, addr, lan)
        self._events = events

    def indication(self, pdu):
        self._events.append(("emit", vclock.clock.now, str(self.address), str(pdu.pduDestination), bytes(pdu.pduData)))
        Node.indication(self, pdu)


class _StackMixin(object):
    """Wiring shared by the plain and the IOCB application."""

    def _wire(self, device, mac, net, window=None, app_timeout=None, events=None):
        self.address = Address(mac)
        self.name = device.objectName
        self.asap = ApplicationServiceAccessPoint()
        self.smap = StateMachineAccessPoint(device)
        self.smap.deviceInfoCache = self.deviceInfoCache
        if window is not None:
            self.smap.proposedWindowSize = window
        if app_timeout is not None:
            self.smap.applicationTimeout = app_timeout
        self.nsap = NetworkServiceAccessPoint()
        self.nse = NetworkServiceElement()
        bind(self.nse, self.nsap)
        bind(self, self.asap, self.smap, self.nsap)
        self.node = Node(self.address, net) if events is None else RecNode(self.address, net, events)
        self.nsap.bind(self.node)
        # records
        self.indications = []       # (time, src, invokeID, serviceNumber, payload)
        self.confirmations = []     # (time, kind, src, invokeID, payload or reason)
        self.held = []              # requests the server application has not answered yet
        self.answer_mode = "now"    # now | hold | never
        self.resp_len = 0           # length of the result block
        self.resp_len_by_sn = {}    # ... per service number (overrides resp_len)
        self.resp_kind = "ack"      # ack | error | reject | abort
        self.iam_seen = []
        self.unconfirmed_seen = []

    # ---- server side
    def do_ConfirmedPrivateTransferRequest(self, apdu):
        self.indications.append((vclock.clock.now, str(apdu.pduSource), apdu.apduInvokeID, apdu.serviceNumber,
                                 payload_of(apdu)))
        if self.answer_mode == "now":
            self._answer(apdu)
        elif self.answer_mode == "hold":
            self.held.append(apdu)

    def answer(self, j=0):
        """The server application answers held request j now."""
        apdu = self.held.pop(j)
        self._answer(apdu)

    def _answer(self, apdu):
        if self.resp_kind == "ack":
            resp = ConfirmedPrivateTransferACK(context=apdu)
            resp.vendorID = 999
            resp.serviceNumber = apdu.serviceNumber
            resp.resultBlock = Any(OctetString(stream("resp%d" % apdu.serviceNumber,
                                                            self.resp_len_by_sn.get(apdu.serviceNumber, self.resp_len))))
        elif self.resp_kind == "error":
            resp = ConfirmedPrivateTransferError(context=apdu)
            resp.errorType = ErrorType(errorClass="services", errorCode="other")
            resp.vendorID = 999
            resp.serviceNumber = apdu.serviceNumber
        elif self.resp_kind == "reject":
            resp = RejectPDU(reason=9, context=apdu)
        else:
            resp = AbortPDU(True, reason=0, context=apdu)
            resp.apduSrv = True
        self.response(resp)

    def do_UnconfirmedPrivateTransferRequest(self, apdu):
        self.unconfirmed_seen.append((str(apdu.pduSource), apdu.serviceNumber))

    def do_IAmRequest(self, apdu):
        self.iam_seen.append((str(apdu.pduSource), apdu.iAmDeviceIdentifier))
        self.callers_cache.iam_device_info(apdu)

    # ---- client side
    def make_request(self, peer, req_len, service_number=1, invoke=None):
        req = ConfirmedPrivateTransferRequest(vendorID=999, serviceNumber=service_number)
        req.serviceParameters = Any(OctetString(stream("req%d" % service_number, req_len)))
        req.pduDestination = peer if isinstance(peer, Address) else Address(peer)
        if invoke is not None:
            req.apduInvokeID = invoke
        return req

    def _record_confirmation(self, apdu, via):
        kind = outcome_of(apdu)
        what = payload_of(apdu) if kind == "ack" else getattr(apdu, "apduAbortRejectReason", None)
        if kind == "error":
            et = getattr(apdu, "errorType", apdu)
            what = "%s/%s" % (getattr(et, "errorClass", None), getattr(et, "errorCode", None))
        self.confirmations.append((vclock.clock.now, kind, str(apdu.pduSource), apdu.apduInvokeID, what, via,
                                   getattr(apdu, "serviceNumber", None)))


class PlainApp(_StackMixin, Application):
    def __init__(self, device, mac, net, **kw):
        # the program creates the device information cache itself, hands it to the application and keeps its own reference
        # (as a program with a persistent cache does); everything the harness files goes through that reference
        self.callers_cache = DeviceInfoCache()
        Application.__init__(self, device, deviceInfoCache=self.callers_cache)
        self._wire(device, mac, net, **kw)

    def submit(self, peer, req_len, service_number=1, invoke=None):
        req = self.make_request(peer, req_len, service_number, invoke)
        self.request(req)
        return req

    def confirmation(self, apdu):
        self._record_confirmation(apdu, "confirmation")


class IOApp(_StackMixin, ApplicationIOController):
    def __init__(self, device, mac, net, **kw):
        self.callers_cache = DeviceInfoCache()
        ApplicationIOController.__init__(self, device, deviceInfoCache=self.callers_cache)
        self._wire(device, mac, net, **kw)
        self.iocbs = []
        self.chain = []             # (peer, req_len, service_number) submitted one by one from the completion callbacks
        self.chain_submitted = []

    def submit(self, peer, req_len, service_number=1, invoke=None):
        req = self.make_request(peer, req_len, service_number, invoke)
        iocb = IOCB(req)
        iocb.calls = 0
        iocb.add_callback(self._iocb_done_record)
        iocb.add_callback(self._iocb_done)
        self.iocbs.append(iocb)
        self.request_io(iocb)
        return req

    def _iocb_done(self, iocb):
        iocb.calls += 1
        self._after_callback(iocb)

    def _after_callback(self, iocb):
        """Applications commonly submit their next request from inside the completion callback."""
        nxt = getattr(self, "chain", None)
        if nxt:
            args = nxt.pop(0)
            self.chain_submitted.append(self.submit(*args))

    def _iocb_done_record(self, iocb):
        apdu = iocb.ioResponse if iocb.ioResponse is not None else iocb.ioError
        if apdu is None or not hasattr(apdu, "apduInvokeID"):
            self.confirmations.append((vclock.clock.now, "other:%r" % (apdu,), None, None, None, "iocb", None))
        else:
            self._record_confirmation(apdu, "iocb")


def residue(app):
    """What a stack still holds; empty dict == clean."""
    out = {}
    if app.smap.clientTransactions:
        out["clientTransactions"] = [(t.invokeID, t.state) for t in app.smap.clientTransactions]
    if app.smap.serverTransactions:
        out["serverTransactions"] = [(t.invokeID, t.state) for t in app.smap.serverTransactions]
    q = getattr(app, "queue_by_address", None)
    if q:
        out["queue_by_address"] = sorted(str(k) for k in q)
    for info in set(id(v) for v in app.deviceInfoCache.cache.values()):
        pass
    refs = [getattr(v, "_ref_count", 0) for v in app.deviceInfoCache.cache.values()]
    if any(refs):
        out["deviceInfo_refcounts"] = refs
    return out
