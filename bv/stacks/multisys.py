"""S-APP with several clients / servers on one controlled LAN and an injection-capable environment (C11).

A history is a tuple of event labels; `MultiSystem.replay(cfg, history)` rebuilds fresh real stacks and
applies them.  Alongside the real stacks the harness keeps the *reference* bookkeeping the oracle needs:
which request is live towards which peer under which invoke ID.
"""
import bv  # noqa: F401
from bacpypes import core as _core
from bacpypes.pdu import Address, PDU
from bacpypes.vlan import Network

from bv.engine import vclock
from bv.engine.acc import h64
from bv.engine.canon import canon
from bv.engine.ctlnet import Wire, CtlNetwork, Frame
from bv.refs import ssmwire
from bv.stacks import app as A
from bv.stacks.appsys import _device, side

# "Abort.client" / "SegmentAck.client": the same PDU with the server bit clear, i.e. sent by the peer in its *client* role:
# it speaks about a transaction in which we are the server and never about one of our own requests, whatever its invoke ID
INJ_TYPES = ("SimpleAck", "ComplexAck", "Error", "Reject", "Abort", "SegmentAck", "Abort.client", "SegmentAck.client")
UNKNOWN_MAC = 9


def iam_octets(instance):
    """I-Am (local broadcast form) of a device instance: max APDU 480, segmentation both, vendor 999."""
    oid = (8 << 22) | instance
    return bytes([0x01, 0x00, 0x10, 0x00, 0xC4]) + oid.to_bytes(4, "big") + bytes([0x22, 0x01, 0xE0, 0x91, 0x00, 0x22, 0x03, 0xE7])


def craft(kind, invoke, service=18):
    """NPDU octets (local addressing) of a crafted reply; written by hand from clause 20.1."""
    if kind == "SimpleAck":
        apdu = bytes([0x20, invoke, service])
    elif kind == "ComplexAck":
        # private transfer ack, vendor 999, service number 99, no result block
        apdu = bytes([0x30, invoke, service, 0x0A, 0x03, 0xE7, 0x19, 99])
    elif kind == "Error":
        # ConfirmedPrivateTransfer-Error: [0]{ class services(5), code other(0) } [1] vendor 999 [2] service 99
        apdu = bytes([0x50, invoke, service, 0x0E, 0x91, 0x05, 0x91, 0x00, 0x0F, 0x1A, 0x03, 0xE7, 0x29, 99])
    elif kind == "Reject":
        apdu = bytes([0x60, invoke, 0x09])
    elif kind == "Abort":
        apdu = bytes([0x71, invoke, 0x00])          # server = 1
    elif kind == "SegmentAck":
        apdu = bytes([0x41, invoke, 0x00, 0x01])    # server = 1, seq 0, window 1
    elif kind == "Abort.client":
        apdu = bytes([0x70, invoke, 0x00])          # server = 0
    elif kind == "SegmentAck.client":
        apdu = bytes([0x40, invoke, 0x00, 0x01])    # server = 0
    else:
        raise ValueError(kind)
    return bytes([0x01, 0x00]) + apdu


class MCfg(object):
    def __init__(self, clients, servers, script, inj=0, dup=0, timers=0, inj_types=INJ_TYPES, deliver_width=3,
                 label=None, resp_len=3, req_len=2, iam=False):
        self.clients = [dict(c) for c in clients]       # {"mac":1, "next_id":1}
        self.servers = list(servers)                     # macs
        # (client index, server mac, explicit invoke or None[, "cb"]); "cb": the application submits this request
        # synchronously from inside the confirmation of its previous request instead of at an explorer-chosen point
        self.script = [tuple(s) for s in script]
        self.inj = inj
        self.dup = dup
        self.timers = timers
        self.inj_types = tuple(inj_types)
        self.deliver_width = deliver_width
        # every server announces itself at the start (the clients file the I-Ams) and a foreign reply may be preceded by
        # an I-Am from its sender that claims the device instance of the station the live request was sent to
        self.iam = iam
        self.label = label
        self.resp_len = resp_len
        self.req_len = req_len

    def to_json(self):
        return dict(self.__dict__)

    @classmethod
    def from_json(cls, d):
        d = dict(d)
        return cls(d.pop("clients"), d.pop("servers"), d.pop("script"), **d)

    def describe(self):
        return {"clients": self.clients, "servers": self.servers, "script": self.script, "inj": self.inj, "dup": self.dup,
                "timers": self.timers}


class MultiSystem(object):
    def __init__(self, cfg):
        self.cfg = cfg
        vclock.reset(0.0)
        self.events = []
        self.wire = Wire()
        self.net = CtlNetwork(self.wire, "lan")
        self.clients = []
        self.servers = {}
        sd = side(retries=1, maxapdu=480)
        for i, c in enumerate(cfg.clients):
            app = A.PlainApp(_device("client%d" % i, 10 + i, sd), c["mac"], self.net, events=self.events)
            app.smap.nextInvokeID = c.get("next_id", 1)
            self.clients.append(app)
        for mac in cfg.servers:
            app = A.PlainApp(_device("server%d" % mac, 20 + mac, sd), mac, self.net, events=self.events)
            app.answer_mode = "hold"
            app.resp_len = cfg.resp_len
            # the server application may take long: a retransmission then arrives while the original is held
            app.smap.applicationTimeout = 20000
            self.servers[mac] = app
        self.next_script = 0
        self.inj_left = cfg.inj
        self.dup_left = cfg.dup
        self.timers_left = cfg.timers
        self.history = []
        # reference bookkeeping
        self.live = [dict() for _ in cfg.clients]        # per client: (peer mac, invoke) -> request number k
        self.finished = [list() for _ in cfg.clients]    # per client: (peer mac, invoke, k)
        self.outcome = {}                                # k -> (kind, matched_injection?)
        self.problems = []
        self.errors = []
        self.injected = []                               # frames we crafted: (src mac, dst mac, kind, invoke)
        self.aliases = {}                                # (client, peer, invoke) -> every request ever sent under that key
        self._seen_conf = [0 for _ in cfg.clients]
        for ci, app in enumerate(self.clients):
            self._hook_callback_submission(ci, app)
        self._seen_ind = {mac: 0 for mac in cfg.servers}
        self.ind_count = {}                              # (server mac, client mac, invoke, k) -> indications
        vclock.settle()
        if cfg.iam:
            from bacpypes.pdu import LocalBroadcast
            for mac in cfg.servers:
                try:
                    Network.process_pdu(self.net, PDU(iam_octets(20 + mac), source=Address(mac), destination=LocalBroadcast()))
                except Exception as err:
                    self.wire.errors.append("%s: %s" % (type(err).__name__, str(err)[:120]))
                vclock.settle()

    def _hook_callback_submission(self, ci, app):
        orig = app.confirmation

        def confirmation(apdu):
            orig(apdu)
            self._observe_confirmations()       # the reference learns of the outcome before the application goes on
            k = self.next_script
            if k < len(self.cfg.script) and len(self.cfg.script[k]) > 3 and self.cfg.script[k][3] == "cb" \
                    and self.cfg.script[k][0] == ci:
                self._submit(k)
        app.confirmation = confirmation

    # ------------------------------------------------------------------ menu
    def menu(self):
        m = []
        cfg = self.cfg
        if self.next_script < len(cfg.script) and not (len(cfg.script[self.next_script]) > 3 and cfg.script[self.next_script][3] == "cb"):
            m.append("submit")
        fl = self.wire.inflight
        for i in range(min(len(fl), cfg.deliver_width)):
            m.append("deliver%d" % i)
        if self.dup_left > 0:
            for i in range(min(len(fl), cfg.deliver_width)):
                if self._is_request(fl[i]) and fl[i].copies == 0:
                    m.append("dup%d" % i)
        for mac in cfg.servers:
            for j in range(len(self.servers[mac].held)):
                m.append("answer%d.%d" % (mac, j))
        if self.inj_left > 0:
            m.extend(self._injection_menu())
        nd = vclock.next_due()
        if nd is not None and (self.timers_left > 0 or not m):
            m.append("timer")
        return m

    def _is_request(self, fr):
        try:
            n, a = ssmwire.parse_frame(fr.data)
        except ssmwire.WireError:
            return False
        return a is not None and a["type"] == 0

    def _injection_menu(self):
        """type x source in {each server, unknown station} x invoke in {live ids, a finished id, an unused id} per client"""
        out = []
        for ci, app in enumerate(self.clients):
            ids = sorted(set(inv for (_, inv) in self.live[ci]))
            fin = [inv for (_, inv, _) in self.finished[ci] if inv not in ids]
            cand = list(ids[:2])
            if fin:
                cand.append(fin[0])
            unused = next(x for x in (77, 78, 79, 80) if x not in ids and x not in fin)
            cand.append(unused)
            for src in list(self.cfg.servers) + [UNKNOWN_MAC]:
                for inv in cand:
                    for kind in self.cfg.inj_types:
                        out.append("inject:%d:%d:%s:%d" % (ci, src, kind, inv))
                    if self.cfg.iam and any(i == inv and p != src for (p, i) in self.live[ci]):
                        for kind in ("SimpleAck", "ComplexAck", "Abort"):
                            out.append("inject:%d:%d:%s+iam:%d" % (ci, src, kind, inv))
        # toward a server that is holding a request: server-role frames from the very client it is serving (they speak
        # about transactions in which that client serves) and client-role frames with the same invoke ID from other
        # stations (equal IDs from different peers are independent).  None of them concerns the held transaction.
        for mac in self.cfg.servers:
            for h in self.servers[mac].held[:2]:
                hsrc, hinv = int(str(h.pduSource)), h.apduInvokeID
                for kind in ("Abort", "SegmentAck", "SimpleAck", "Reject"):
                    out.append("inject:S%d:%d:%s:%d" % (mac, hsrc, kind, hinv))
                # (a station whose own request with that ID is under way here would rightfully abort *that* one)
                held_keys = set((int(str(x.pduSource)), x.apduInvokeID) for x in self.servers[mac].held)
                others = [c["mac"] for ci, c in enumerate(self.cfg.clients)
                          if c["mac"] != hsrc and (mac, hinv) not in self.live[ci] and (c["mac"], hinv) not in held_keys] + [UNKNOWN_MAC]
                for o in others[:2]:
                    for kind in ("Abort.client", "SegmentAck.client"):
                        out.append("inject:S%d:%d:%s:%d" % (mac, o, kind, hinv))
        return out

    # ------------------------------------------------------------------ apply
    def apply(self, label):
        self.history.append(label)
        cfg = self.cfg
        if label == "submit":
            self._submit(self.next_script)
        elif label.startswith("deliver") or label.startswith("dup"):
            dup = label.startswith("dup")
            i = int(label[3:] if dup else label[7:])
            fr = self.wire.inflight[i]
            if dup:
                self.dup_left -= 1
            before = [len(app.confirmations) for app in self.clients]
            self.wire.deliver(i, keep=dup)
            for ci, app in enumerate(self.clients):
                if len(app.confirmations) - before[ci] > 1:
                    self.problems.append(("one-reply-frame-completed-several-requests",
                                          {"client": ci, "confirmations": [(c[1], c[2], c[3], c[6]) for c in app.confirmations[before[ci]:]]}))
        elif label.startswith("answer"):
            mac, j = label[6:].split(".")
            try:
                self.servers[int(mac)].answer(int(j))
            except Exception as err:
                self.errors.append("answer:%s:%s" % (type(err).__name__, err))
        elif label.startswith("inject:"):
            _, ci, src, kind, inv = label.split(":")
            src, inv = int(src), int(inv)
            self.inj_left -= 1
            if ci.startswith("S"):
                self._inject_server(int(ci[1:]), src, kind, inv)
            else:
                self._inject(int(ci), src, kind, inv)
        elif label == "timer":
            if self.timers_left > 0:
                self.timers_left -= 1
            nd = vclock.next_due()
            if nd is not None and nd > vclock.clock.now:
                vclock.clock.now = nd
            _core.run_once()
        else:
            raise ValueError(label)
        try:
            vclock.settle()
        except vclock.Livelock as err:
            self.problems.append(("livelock", {"err": str(err)}))
        self._observe()

    def _submit(self, k):
        cfg = self.cfg
        self.next_script = k + 1
        ci, peer, inv = cfg.script[k][:3]
        if inv is not None and not (0 <= inv <= 255):
            # no octet: the only right answer is a refusal (any exception) that leaves nothing behind
            before = (len(self.clients[ci].smap.clientTransactions), len(vclock.pending_tasks()), len(self.wire.inflight))
            try:
                self.clients[ci].submit(Address(peer), cfg.req_len, service_number=k + 1, invoke=inv)
            except Exception:
                self.outcome[k + 1] = ("refused-at-submit", False)
            else:
                self.problems.append(("invoke-id-that-is-no-octet-accepted", {"request": k + 1, "invoke": inv}))
                self.outcome[k + 1] = ("accepted", False)
            vclock.settle()
            after = (len(self.clients[ci].smap.clientTransactions), len(vclock.pending_tasks()), len(self.wire.inflight))
            if after != before and (k + 1) in self.outcome and self.outcome[k + 1][0] == "refused-at-submit":
                self.problems.append(("refused-submission-left-something-behind",
                                      {"request": k + 1, "invoke": inv, "transactions/timers/frames before": before, "after": after}))
            return
        try:
            req = self.clients[ci].submit(Address(peer), cfg.req_len, service_number=k + 1, invoke=inv)
            got = req.apduInvokeID
            if got is None:
                self.problems.append(("submit-without-invoke-id", {"request": k + 1}))
            else:
                key = (peer, got)
                if key in self.live[ci]:
                    self.problems.append(("invoke-id-reused-while-live", {"request": k + 1, "peer": peer, "invoke": got,
                                                                          "other": self.live[ci][key]}))
                self.live[ci][key] = k + 1
                self.aliases.setdefault((ci,) + key, set()).add(k + 1)
        except RuntimeError as err:
            # the stack may refuse an application-chosen ID that is in use; that is the documented contract
            key = (peer, inv)
            if inv is not None and key in self.live[ci]:
                self.outcome[k + 1] = ("refused-at-submit", False)
            else:
                self.problems.append(("submit-raised:%s" % err, {"request": k + 1}))

    def _inject(self, ci, src, kind, inv):
        """Deliver a crafted frame to client ci right now and judge its effect against the reference."""
        app = self.clients[ci]
        key = (src, inv)
        claims = kind.endswith("+iam")
        if claims:
            # the sender first announces itself with the device instance of the station a live request with that ID went to
            # (a second device configured with the same instance): the device record moves, the live request does not
            kind = kind[:-4]
            peer = next(p for (p, i) in sorted(self.live[ci]) if i == inv and p != src)
            from bacpypes.pdu import LocalBroadcast
            try:
                Network.process_pdu(self.net, PDU(iam_octets(20 + peer), source=Address(src), destination=LocalBroadcast()))
            except Exception as err:
                self.wire.errors.append("%s: %s" % (type(err).__name__, str(err)[:120]))
            vclock.settle()
        should_match = key in self.live[ci] and not kind.endswith(".client")
        before = self._client_canon(ci, identity_only=claims)
        nconf = len(app.confirmations)
        pdu = PDU(craft(kind, inv), source=Address(src), destination=app.address)
        self.injected.append((src, self.cfg.clients[ci]["mac"], kind, inv))
        k_live = self.live[ci].get(key)
        if should_match:
            self._inj_pending = (ci, key, k_live, kind)     # known before delivery: the outcome may be observed inside it
        try:
            Network.process_pdu(self.net, pdu)
        except Exception as err:
            self.wire.errors.append("%s: %s" % (type(err).__name__, str(err)[:120]))
        vclock.settle()
        after = self._client_canon(ci, identity_only=claims)
        new = app.confirmations[nconf:]
        if not should_match:
            if new:
                self.problems.append(("foreign-reply-produced-confirmation:%s" % kind,
                                      {"client": ci, "from": src, "invoke": inv, "live": sorted(self.live[ci])}))
            elif before != after:
                self.problems.append(("foreign-reply-changed-client-state:%s" % kind,
                                      {"client": ci, "from": src, "invoke": inv, "live": sorted(self.live[ci])}))
        else:
            if kind == "SegmentAck":
                if new:
                    self.problems.append(("segment-ack-produced-confirmation", {"request": k_live}))

    def _server_canon(self, mac):
        app = self.servers[mac]
        now = vclock.clock.now
        return h64((canon(app.smap.clientTransactions, now), canon(app.smap.serverTransactions, now), len(app.indications),
                    tuple((str(h.pduSource), h.apduInvokeID) for h in app.held), len(app.confirmations),
                    tuple(str(f.key()) for f in self.wire.inflight)))

    def _inject_server(self, mac, src, kind, inv):
        """A crafted frame that does not concern any transaction the server is serving: nothing may change."""
        app = self.servers[mac]
        before = self._server_canon(mac)
        pdu = PDU(craft(kind, inv), source=Address(src), destination=app.address)
        self.injected.append((src, mac, kind, inv))
        try:
            Network.process_pdu(self.net, pdu)
        except Exception as err:
            self.wire.errors.append("%s: %s" % (type(err).__name__, str(err)[:120]))
        vclock.settle()
        self._prune_held()
        if self._server_canon(mac) != before:
            self.problems.append(("foreign-frame-changed-server-state:%s" % kind,
                                  {"server": mac, "from": src, "invoke": inv,
                                   "held": [(str(h.pduSource), h.apduInvokeID) for h in app.held]}))

    def injection_should_match(self, label):
        _, ci, src, kind, inv = label.split(":")
        if ci.startswith("S"):
            return False
        return (int(src), int(inv)) in self.live[int(ci)] and not kind.endswith(".client")

    def batch_noop_injections(self, labels):
        """Deliver every crafted frame of `labels` (none of which matches a live transaction by the reference) to
        this one system.  Each must leave the client unchanged, so they can share the system; stops at the first
        problem.  Returns (labels done, label that produced a problem or None)."""
        done = []
        for lab in labels:
            _, ci, src, kind, inv = lab.split(":")
            n = len(self.problems)
            if ci.startswith("S"):
                self._inject_server(int(ci[1:]), int(src), kind, int(inv))
            else:
                self._inject(int(ci), int(src), kind, int(inv))
            self._inj_pending = None
            done.append(lab)
            if len(self.problems) > n:
                return done, lab
        return done, None

    def _client_canon(self, ci, identity_only=False):
        app = self.clients[ci]
        now = vclock.clock.now
        if identity_only:
            # (the device record a transaction holds may rightfully change under it: only who it talks to, under which ID
            # and in which state is compared)
            return h64((tuple((tr.invokeID, tr.state, str(tr.pdu_address)) for tr in app.smap.clientTransactions),
                        len(app.confirmations), tuple(str(f.key()) for f in self.wire.inflight)))
        return h64((canon(app.smap.clientTransactions, now), canon(app.smap.serverTransactions, now), app.smap.nextInvokeID,
                    len(app.confirmations), tuple(str(f.key()) for f in self.wire.inflight)))

    # ------------------------------------------------------------------ observation / reference bookkeeping
    def _observe(self):
        self._observe_confirmations()
        self._inj_pending = None
        self._observe_rest()

    def _observe_confirmations(self):
        inj = getattr(self, "_inj_pending", None)
        for ci, app in enumerate(self.clients):
            while self._seen_conf[ci] < len(app.confirmations):
                c = app.confirmations[self._seen_conf[ci]]
                self._seen_conf[ci] += 1
                t, kind, src, inv, what, via, sn = c
                try:
                    src_mac = int(src)
                except (TypeError, ValueError):
                    src_mac = src
                key = (src_mac, inv)
                k = self.live[ci].pop(key, None)
                if k is None:
                    self.problems.append(("confirmation-matches-no-live-request:%s" % kind,
                                          {"client": ci, "from": src, "invoke": inv, "live": sorted(self.live[ci])}))
                    continue
                self.finished[ci].append((src_mac, inv, k))
                from_injection = inj is not None and inj[0] == ci and inj[1] == key
                if k in self.outcome:
                    self.problems.append(("second-outcome-for-request", {"request": k, "kind": kind}))
                self.outcome[k] = (kind, from_injection)
                if not from_injection:
                    if kind == "ack":
                        want = A.stream("resp%d" % k, self.cfg.resp_len)
                        # a reply to an earlier request that used the same (peer, invoke ID) and ended early is
                        # indistinguishable by protocol design; anything else is a crossed reply
                        same_key = self.aliases.get((ci,) + key, set())
                        if sn in same_key and sn != k and what == A.stream("resp%d" % sn, self.cfg.resp_len):
                            pass
                        elif sn != k or what != want:
                            self.problems.append(("reply-of-another-request-delivered",
                                                  {"request": k, "echoed_tag": sn, "client": ci, "from": src, "invoke": inv}))
                    elif kind == "abort" and what in (65,):
                        pass    # local timeout abort
                    else:
                        self.problems.append(("unexpected-outcome-kind:%s" % kind, {"request": k}))
                else:
                    if kind == "ack" and sn not in (99, None):
                        self.problems.append(("injected-ack-carries-other-tag", {"request": k, "tag": sn}))
    def _prune_held(self):
        """A request the server stack has given up on (application timeout: the transaction is gone) is no longer being
        processed; the harness' server application stops holding it."""
        for mac, app in self.servers.items():
            app.held = [h for h in app.held
                        if any(tr.invokeID == h.apduInvokeID and tr.pdu_address == h.pduSource for tr in app.smap.serverTransactions)]

    def _observe_rest(self):
        self._prune_held()
        # live invoke ids distinct per peer, as the real stack sees them
        for ci, app in enumerate(self.clients):
            seen = set()
            for tr in app.smap.clientTransactions:
                key = (str(tr.pdu_address), tr.invokeID)
                if key in seen:
                    self.problems.append(("two-live-transactions-share-peer-and-invoke-id", {"client": ci, "key": key}))
                seen.add(key)
        # indications: each (client, invoke, request) at most once while the original is held / at all without timers
        for mac, app in self.servers.items():
            while self._seen_ind[mac] < len(app.indications):
                ind = app.indications[self._seen_ind[mac]]
                self._seen_ind[mac] += 1
                t, src, inv, sn, payload = ind
                key = (mac, src, inv, sn)
                self.ind_count[key] = self.ind_count.get(key, 0) + 1
                want = A.stream("req%d" % sn, self.cfg.req_len)
                if payload != want:
                    self.problems.append(("indication-payload-of-another-request", {"server": mac, "from": src, "tag": sn}))
                ci = next((i for i, c in enumerate(self.cfg.clients) if str(c["mac"]) == src), None)
                if ci is None or not (1 <= sn <= len(self.cfg.script)) or self.cfg.script[sn - 1][0] != ci \
                        or self.cfg.script[sn - 1][1] != mac:
                    self.problems.append(("indication-at-wrong-server-or-from-wrong-client", {"server": mac, "from": src, "tag": sn}))
        # while a request is held by the server application a duplicate must not be indicated again (any config)
        for mac, app in self.servers.items():
            # (entries whose transaction the stack abandoned were pruned before the indication that is judged here)
            held_keys = [(str(h.pduSource), h.apduInvokeID) for h in app.held]
            if len(held_keys) != len(set(held_keys)):
                self.problems.append(("duplicate-request-indicated-while-original-held", {"server": mac, "held": held_keys}))

    def canon_state(self):
        now = vclock.clock.now
        apps = []
        for app in self.clients + [self.servers[m] for m in sorted(self.servers)]:
            apps.append((canon(app.smap.clientTransactions, now), canon(app.smap.serverTransactions, now), app.smap.nextInvokeID,
                         tuple((c[1], c[2], c[3], c[6]) for c in app.confirmations),
                         tuple((i[1], i[2], i[3]) for i in app.indications),
                         tuple((str(h.pduSource), h.apduInvokeID, h.serviceNumber) for h in app.held)))
        fl = tuple((f.key(), f.copies) for f in self.wire.inflight)
        tasks = tuple((round(when - now, 6), type(t).__name__) for (when, n, t) in vclock.pending_tasks())
        return (tuple(apps), fl, tasks, self.next_script, self.inj_left, self.dup_left, self.timers_left,
                tuple(sorted(self.outcome.items())))

    def final_problems(self):
        """At a terminal state (empty menu): every request has exactly one outcome, nothing left."""
        out = []
        for k in range(1, self.next_script + 1):
            if k not in self.outcome:
                out.append(("request-without-outcome", {"request": k}))
        for ci, app in enumerate(self.clients):
            if app.smap.clientTransactions:
                out.append(("residue:clientTransactions", {"client": ci}))
        for mac, app in self.servers.items():
            if app.smap.serverTransactions:
                out.append(("residue:serverTransactions", {"server": mac}))
        return out

    @classmethod
    def replay(cls, cfg, history):
        from bv.engine.pool import HarnessError
        s = cls(cfg)
        for lab in history:
            if lab not in s.menu():
                raise HarnessError("replay diverged: %r not enabled after %r" % (lab, s.history))
            s.apply(lab)
        return s
