"""Builders for C17: commandable objects of the working tree, alone or inside a device stack.

* `cmd_class(name)`   the `*CmdObject` class of bacpypes.local.object, used through a subclass decorated with
                      `register_object_type(vendor_id=999)` exactly as samples/CommandableMixin.py does
                      (undecorated, the class inherits the non-commandable property table of its standard
                      parent and refuses every command with write-access-denied).
* value conversions   abstract reference values (bv.refs.cmdref.DOMAINS) <-> what bacpypes takes / gives
* `WirePair`          a client ApplicationIOController stack and a device Application stack
                      (ReadWritePropertyServices + LocalDeviceObject, vendorIdentifier 999) on one controlled LAN
                      in perfect-network mode, wired like tests/test_service/helpers.py
                      `WirePair(cov=True)`: the device also offers ChangeOfValueServices (it is an
                      ApplicationIOController then, the notifications are its own requests); the client
                      subscribes / renews / cancels with SubscribeCOV and consumes the notifications
"""
import bv  # noqa: F401
from bacpypes.comm import bind
from bacpypes.iocb import IOCB
from bacpypes.pdu import Address
from bacpypes.app import Application, ApplicationIOController
from bacpypes.appservice import StateMachineAccessPoint, ApplicationServiceAccessPoint
from bacpypes.netservice import NetworkServiceAccessPoint, NetworkServiceElement
from bacpypes.service.object import ReadWritePropertyServices
from bacpypes.service.cov import ChangeOfValueServices
from bacpypes.local.device import LocalDeviceObject
from bacpypes.local import object as local_object
from bacpypes.object import register_object_type
from bacpypes.vlan import Node
from bacpypes.primitivedata import (Null, Real, Double, Unsigned, Integer, CharacterString, OctetString,
                                    BitString, Date, Time, Enumerated)
from bacpypes.basetypes import BinaryPV, DoorValue, DateTime, PriorityArray, PriorityValue
from bacpypes.constructeddata import Any
from bacpypes.apdu import (WritePropertyRequest, ReadPropertyRequest, ReadPropertyACK, SimpleAckPDU,
                           SubscribeCOVRequest, Error, RejectPDU, AbortPDU)

from bv.engine import vclock
from bv.engine.ctlnet import Wire, CtlNetwork
from bv.refs import cmdref

VENDOR = 999
_classes = {}


def cmd_class(name):
    cls = _classes.get(name)
    if cls is None:
        base = getattr(local_object, name)
        cls = register_object_type(type("Verif" + name, (base,), {}), vendor_id=VENDOR)
        _classes[name] = cls
    return cls


# ------------------------------------------------------------------------------------ value conversions

_DOOR_NAMES = dict((v, k) for k, v in cmdref.DOOR.items())
_BIN_NAMES = dict((v, k) for k, v in cmdref.BINARY.items())

ATOMIC = {"real": Real, "double": Double, "binary": BinaryPV, "door": DoorValue, "unsigned": Unsigned,
          "integer": Integer, "chars": CharacterString, "octets": OctetString, "bits": BitString,
          "date": Date, "time": Time}


def to_py(domain, v):
    """abstract value -> the Python value bacpypes' property interface takes (enumerations by name)"""
    if v is cmdref.NULL:
        return ()
    if domain == "binary":
        return _BIN_NAMES[v]
    if domain == "door":
        return _DOOR_NAMES[v]
    if domain == "bits":
        return list(v)
    if domain == "datetime":
        return DateTime(date=v[0], time=v[1])
    return v


def to_encodable(domain, v):
    """abstract value -> object for Any.cast_in"""
    if v is cmdref.NULL:
        return Null()
    if domain == "datetime":
        return DateTime(date=v[0], time=v[1])
    return ATOMIC[domain](to_py(domain, v))


def to_priority_value(domain, choice, v):
    """abstract value -> the BACnetPriorityValue carrying it (what an element of the priority array is on the wire)"""
    if v is cmdref.NULL:
        return PriorityValue(null=())
    if domain == "datetime":
        return PriorityValue(datetime=DateTime(date=v[0], time=v[1]))
    if domain in ("binary", "door"):
        return PriorityValue(enumerated=v)                  # the number, an Enumerated on the wire
    return PriorityValue(**{choice: to_py(domain, v)})


def make_array(domain, choice, slots16):
    """16 abstract slot contents -> a new PriorityArray object holding them"""
    return PriorityArray([to_priority_value(domain, choice, v) for v in slots16])


def invalid_py(tagged):
    """(datatype tag, content) of cmdref.INVALID -> what a caller of the property interface would hand over"""
    tag, content = tagged
    if tag == "bits":
        return list(content)
    return content


def invalid_encodable(tagged):
    """(datatype tag, content) of cmdref.INVALID -> application-tagged object for Any.cast_in"""
    tag, content = tagged
    if tag == "enum":
        return Enumerated(content)
    return ATOMIC[tag](invalid_py(tagged))


def from_py(domain, x):
    """what bacpypes gives back -> abstract value (anything unexpected is kept visible as ('?', repr))"""
    try:
        if domain in ("binary", "door"):
            table = cmdref.BINARY if domain == "binary" else cmdref.DOOR
            if isinstance(x, str):
                return table[x]
            if isinstance(x, int) and not isinstance(x, bool):
                return x
        elif domain in ("real", "double"):
            if isinstance(x, (int, float)) and not isinstance(x, bool):
                return float(x)
        elif domain in ("unsigned", "integer"):
            if isinstance(x, int) and not isinstance(x, bool):
                return x
        elif domain == "chars":
            if isinstance(x, str):
                return x
        elif domain == "octets":
            if isinstance(x, (bytes, bytearray)):
                return bytes(x)
        elif domain == "bits":
            if isinstance(x, (list, tuple)):
                return tuple(int(b) for b in x)
        elif domain in ("date", "time"):
            if isinstance(x, (list, tuple)) and len(x) == 4:
                return tuple(x)
        elif domain == "datetime":
            if isinstance(x, DateTime):
                return (tuple(x.date), tuple(x.time))
    except Exception:
        pass
    return ("?", type(x).__name__, repr(x)[:80])


def slot_view(domain, choice, pv):
    """A PriorityValue of the implementation -> abstract slot content.
    Well-formed = exactly one alternative set: null, or the alternative the standard prescribes for the type."""
    if not isinstance(pv, PriorityValue):
        return ("?slot", type(pv).__name__, repr(pv)[:60])
    present = [(e.name, getattr(pv, e.name, None)) for e in PriorityValue.choiceElements
               if getattr(pv, e.name, None) is not None]
    if len(present) != 1:
        return ("?slot-alternatives", tuple((n, repr(v)[:40]) for n, v in present))
    name, val = present[0]
    if name == "null":
        return cmdref.NULL if val == () else ("?null", repr(val)[:40])
    if name != choice:
        return ("?slot-choice", name, repr(val)[:40])
    return from_py(domain, val)


def generic_canon(x, depth=0):
    """Canonical form of any property value (for 'nothing else changed')."""
    if depth > 8:
        return repr(x)[:80]
    if x is None or isinstance(x, (bool, int, float, str, bytes)):
        return x
    if isinstance(x, (list, tuple)):
        return tuple(generic_canon(i, depth + 1) for i in x)
    if isinstance(x, dict):
        return tuple(sorted((str(k), generic_canon(v, depth + 1)) for k, v in x.items()))
    d = getattr(x, "__dict__", None)
    if d is not None:
        return (type(x).__name__,) + tuple(sorted((k, generic_canon(v, depth + 1)) for k, v in d.items()
                                                  if v is not None and not k.startswith("_")))
    return repr(x)[:80]


def other_properties(obj):
    """Every property value of the object except the three of the command state."""
    return tuple(sorted((k, generic_canon(v)) for k, v in obj._values.items()
                        if k not in ("presentValue", "priorityArray", "relinquishDefault") and v is not None))


# ------------------------------------------------------------------------------------ objects

def make_object(name, domain, instance=1, min_on=None, min_off=None, explicit_array=False, status_flags=False):
    cls = cmd_class(name)
    dflt = cmdref.DOMAINS[domain]["default"]
    kwargs = dict(objectIdentifier=(cls.objectType, instance), objectName="cmd%d" % instance,
                  presentValue=to_py(domain, dflt), relinquishDefault=to_py(domain, dflt))
    if status_flags:
        kwargs["statusFlags"] = [0, 0, 0, 0]        # reported in every COV notification
    if explicit_array:
        kwargs["priorityArray"] = PriorityArray()
    if min_on is not None:
        kwargs["minimumOnTime"] = min_on
    if min_off is not None:
        kwargs["minimumOffTime"] = min_off
    return cls(**kwargs)


# ------------------------------------------------------------------------------------ stacks

class _NSE(NetworkServiceElement):
    _startup_disabled = True


def _wire_up(app, device_object, lan, mac):
    app.asap = ApplicationServiceAccessPoint()
    app.smap = StateMachineAccessPoint(device_object)
    app.smap.deviceInfoCache = app.deviceInfoCache
    app.nsap = NetworkServiceAccessPoint()
    app.nse = _NSE()
    bind(app.nse, app.nsap)
    bind(app, app.asap, app.smap, app.nsap)
    app.node = Node(Address(mac), lan)
    app.nsap.bind(app.node)


class DeviceApp(Application, ReadWritePropertyServices):
    _startup_disabled = True


class CovDeviceApp(ApplicationIOController, ReadWritePropertyServices, ChangeOfValueServices):
    _startup_disabled = True


class ClientApp(ApplicationIOController):
    _startup_disabled = True
    notifications = 0

    def do_UnconfirmedCOVNotificationRequest(self, apdu):
        self.notifications += 1

    def do_ConfirmedCOVNotificationRequest(self, apdu):
        self.notifications += 1
        self.response(SimpleAckPDU(context=apdu))


def _device_object(name, inst):
    return LocalDeviceObject(objectName=name, objectIdentifier=("device", inst), maxApduLengthAccepted=1024,
                             segmentationSupported="noSegmentation", vendorIdentifier=VENDOR)


class WirePair(object):
    """client (mac 1) and device (mac 2) on one controlled LAN, perfect delivery."""

    def __init__(self, cov=False):
        self.wire = Wire()
        self.wire.auto = True
        self.lan = CtlNetwork(self.wire, "lan")
        self.client = ClientApp(_device_object("client", 1))
        _wire_up(self.client, self.client.localDevice, self.lan, 1)
        self.cov = cov
        self.device = (CovDeviceApp if cov else DeviceApp)(_device_object("device", 2))
        _wire_up(self.device, self.device.localDevice, self.lan, 2)
        self.dest = Address(2)
        self.transactions = 0

    def add(self, obj):
        self.device.add_object(obj)

    def _transact(self, req):
        req.pduDestination = self.dest
        iocb = IOCB(req)
        self.client.request_io(iocb)
        vclock.settle()
        self.transactions += 1
        if self.wire.errors:
            return ("delivery-exception", list(self.wire.errors)), None
        if iocb.ioResponse is not None:
            return None, iocb.ioResponse
        if iocb.ioError is not None:
            return None, iocb.ioError
        return ("no-answer-at-this-instant", str(iocb.ioState)), None

    def write(self, objid, prop, encodable, priority=None, array_index=None):
        """Returns ('ack',) / ('error', class, code) / ('reject', reason) / ('abort', reason) / ('harness', ...)"""
        req = WritePropertyRequest(objectIdentifier=objid, propertyIdentifier=prop)
        req.propertyValue = Any()
        req.propertyValue.cast_in(encodable)
        if priority is not None:
            req.priority = priority
        if array_index is not None:
            req.propertyArrayIndex = array_index
        bad, resp = self._transact(req)
        if bad is not None:
            return ("harness",) + bad
        return classify(resp)

    def subscribe(self, objid, lifetime=None, confirmed=False, process=1):
        """SubscribeCOV: new subscription or renewal (lifetime None / 0 = indefinite) -> classification"""
        req = SubscribeCOVRequest(subscriberProcessIdentifier=process, monitoredObjectIdentifier=objid,
                                  issueConfirmedNotifications=bool(confirmed))
        if lifetime:
            req.lifetime = lifetime
        bad, resp = self._transact(req)
        if bad is not None:
            return ("harness",) + bad
        return classify(resp)

    def cancel(self, objid, process=1):
        """SubscribeCOV without the two optional parameters: cancellation -> classification"""
        req = SubscribeCOVRequest(subscriberProcessIdentifier=process, monitoredObjectIdentifier=objid)
        bad, resp = self._transact(req)
        if bad is not None:
            return ("harness",) + bad
        return classify(resp)

    def live_subscriptions(self):
        """number of subscriptions the device keeps at this instant (harness bookkeeping cross-check)"""
        return sum(1 for _ in self.device.subscriptions())

    def read(self, objid, prop, array_index=None):
        """Returns (('ack',), Any) or (classification, None)"""
        req = ReadPropertyRequest(objectIdentifier=objid, propertyIdentifier=prop)
        if array_index is not None:
            req.propertyArrayIndex = array_index
        bad, resp = self._transact(req)
        if bad is not None:
            return ("harness",) + bad, None
        if isinstance(resp, ReadPropertyACK):
            if resp.objectIdentifier != objid or resp.propertyIdentifier != prop \
                    or resp.propertyArrayIndex != array_index:
                return ("ack-for-something-else", repr(resp.objectIdentifier), resp.propertyIdentifier,
                        resp.propertyArrayIndex), None
            return ("ack",), resp.propertyValue
        return classify(resp), None


def classify(resp):
    if isinstance(resp, SimpleAckPDU):
        return ("ack",)
    if isinstance(resp, Error):
        return ("error", str(resp.errorClass), str(resp.errorCode))
    if isinstance(resp, RejectPDU):
        return ("reject", resp.apduAbortRejectReason)
    if isinstance(resp, AbortPDU):
        return ("abort", resp.apduAbortRejectReason)
    return ("other", type(resp).__name__)
