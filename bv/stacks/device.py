"""S-DEV for C10: one full device (application + services + objects) fed with raw octets at the LAN or B/IP level."""
import bv  # noqa: F401
from bacpypes.app import Application, ApplicationIOController
from bacpypes.appservice import StateMachineAccessPoint, ApplicationServiceAccessPoint
from bacpypes.netservice import NetworkServiceAccessPoint, NetworkServiceElement
from bacpypes.bvllservice import BIPSimple, BIPForeign, AnnexJCodec
from bacpypes.comm import Client, Server, bind
from bacpypes.pdu import Address, LocalBroadcast, PDU, unpack_ip_addr
from bacpypes.vlan import Node, IPNode, Network
from bacpypes.local.device import LocalDeviceObject
from bacpypes.object import AnalogValueObject, BinaryValueObject, WritableProperty, register_object_type
from bacpypes.primitivedata import Real
from bacpypes.basetypes import DateTime
from bacpypes.service.device import WhoIsIAmServices, DeviceCommunicationControlServices
from bacpypes.service.object import ReadWritePropertyServices, ReadWritePropertyMultipleServices
from bacpypes.service.cov import ChangeOfValueServices
from bacpypes.service.file import FileServices
from bacpypes.local.file import LocalStreamAccessFileObject
from bacpypes import core as _core

from bv.engine import vclock
from bv.engine.ctlnet import Wire, CtlNetwork, CtlIPNetwork

DEVICE_MAC = 5
TESTER_MAC = 9
DEVICE_IP = "192.168.1.5/24"
TESTER_TUPLE = ("192.168.1.9", 47808)
TESTER2_MAC = 8
TESTER2_TUPLE = ("192.168.1.8", 47808)
DEVICE_TUPLE = ("192.168.1.5", 47808)
TWIN_MAC = 6
TWIN_IP = "192.168.1.6/24"
TWIN_TUPLE = ("192.168.1.6", 47808)


class _QuietNSE(NetworkServiceElement):
    _startup_disabled = True


class DevApp(ApplicationIOController, WhoIsIAmServices, ReadWritePropertyServices, ReadWritePropertyMultipleServices,
             ChangeOfValueServices, DeviceCommunicationControlServices, FileServices):

    def do_IAmRequest(self, apdu):
        """The application keeps what peers announce about themselves (as the library's samples do)."""
        WhoIsIAmServices.do_IAmRequest(self, apdu)
        self.deviceInfoCache.iam_device_info(apdu)

    def do_ConfirmedPrivateTransferRequest(self, apdu):
        """A vendor service whose outcome the application decides: acknowledgement, abort raised as an exception, abort
        handed over as a PDU, reject, error (service number 1..5)."""
        from bacpypes.apdu import ConfirmedPrivateTransferACK, AbortPDU
        from bacpypes.errors import AbortBufferOverflow, RejectBufferOverflow, ExecutionError
        n = apdu.serviceNumber
        if n == 2:
            raise AbortBufferOverflow()
        if n == 3:
            self.response(AbortPDU(True, reason=9, context=apdu))
            return
        if n == 4:
            raise RejectBufferOverflow()
        if n == 5:
            raise ExecutionError(errorClass="services", errorCode="serviceRequestDenied")
        self.response(ConfirmedPrivateTransferACK(vendorID=apdu.vendorID, serviceNumber=n, context=apdu))


@register_object_type(vendor_id=999)
class MemoryFile(LocalStreamAccessFileObject):
    """A stream file kept in memory (the library leaves the storage to the application)."""

    def __init__(self, **kwargs):
        LocalStreamAccessFileObject.__init__(self, **kwargs)
        self._data = bytearray(b"Hello, file!")

    def __len__(self):
        return len(self._data)

    def read_stream(self, start_position, octet_count):
        end = start_position + octet_count
        return end >= len(self._data), bytes(self._data[start_position:end])

    def write_stream(self, start_position, data):
        if start_position < 0:
            start_position = len(self._data)
        self._data[start_position:start_position + len(data)] = data
        return start_position


@register_object_type(vendor_id=999)
class WritableAnalogValueObject(AnalogValueObject):
    properties = [WritableProperty('presentValue', Real)]


class FauxMux(Client, Server):
    """Stand-in for UDPMultiplexer (which needs real sockets): tuples below, Address objects above, Annex J only."""

    def __init__(self, addr, network):
        Client.__init__(self)
        Server.__init__(self)
        self.address = addr
        self.unicast_tuple = addr.addrTuple
        self.broadcast_tuple = addr.addrBroadcastTuple
        self.node = IPNode(addr, network)
        bind(self, self.node)

    def indication(self, pdu):
        if pdu.pduDestination.addrType == Address.localBroadcastAddr:
            dest = self.broadcast_tuple
        elif pdu.pduDestination.addrType == Address.localStationAddr:
            dest = unpack_ip_addr(pdu.pduDestination.addrAddr)
        else:
            raise RuntimeError("invalid destination address type")
        self.request(PDU(pdu, source=self.unicast_tuple, destination=dest))

    def confirmation(self, pdu):
        src = Address(pdu.pduSource)
        dest = LocalBroadcast() if pdu.pduDestination == self.broadcast_tuple else Address(pdu.pduDestination)
        self.response(PDU(pdu, source=src, destination=dest))


class Device(object):
    def __init__(self, level="lan", twin=False, keep_clock=False):
        """twin: a second complete device (instance 2, station 6) on the same network in the same interpreter;
        keep_clock: do not reset the virtual clock (a device created while an older one is still around)."""
        if not keep_clock:
            vclock.reset(0.0)
        self.level = level
        self.wire = Wire()
        self.errors = []
        self.net = CtlNetwork(self.wire, "lan") if level == "lan" else CtlIPNetwork(self.wire, "ip")
        self.app, self.av, self.bv = self._stack(1, DEVICE_MAC, DEVICE_IP)
        self.twin = self._stack(2, TWIN_MAC, TWIN_IP)[0] if twin else None
        vclock.settle()
        if level in ("ipf:acked", "ipf:nak"):
            # the BBMD answers the registration: BVLC-Result success / NAK
            result = bytes([0x81, 0x00, 0x00, 0x06, 0x00, 0x00 if level == "ipf:acked" else 0x30])
            self.inject(result, other=True)
        self.baseline_tasks = len(vclock.pending_tasks())

    def _stack(self, instance, mac, ip):
        level = self.level
        dev = LocalDeviceObject(objectName="dev", objectIdentifier=("device", instance), vendorIdentifier=999,
                                maxApduLengthAccepted=1024, segmentationSupported="segmentedBoth", maxSegmentsAccepted=16,
                                numberOfApduRetries=1, apduTimeout=3000, apduSegmentTimeout=1000)
        app = DevApp(dev)
        app.asap = ApplicationServiceAccessPoint()
        app.smap = StateMachineAccessPoint(dev)
        app.smap.deviceInfoCache = app.deviceInfoCache
        app.nsap = NetworkServiceAccessPoint()
        app.nse = _QuietNSE()
        bind(app.nse, app.nsap)
        bind(app, app.asap, app.smap, app.nsap)
        if level == "lan":
            app._node = Node(Address(mac), self.net)
            app.nsap.bind(app._node)
        else:
            addr = Address(ip)
            if level.startswith("ipf"):
                # the device is a foreign device of a BBMD played by the second tester station
                app._bip = BIPForeign(Address(TESTER2_TUPLE[0]), 30)
            else:
                app._bip = BIPSimple()
            app._annexj = AnnexJCodec()
            app._mux = FauxMux(addr, self.net)
            bind(app._bip, app._annexj, app._mux)
            app.nsap.bind(app._bip, address=addr)
        av = WritableAnalogValueObject(objectIdentifier=("analogValue", 1), objectName="av1", presentValue=1.0,
                                       statusFlags=[0, 0, 0, 0], covIncrement=1.0,
                                       description="a description of sixty characters, two segments of fifty")
        bvo = BinaryValueObject(objectIdentifier=("binaryValue", 1), objectName="bv1", presentValue="inactive",
                                statusFlags=[0, 0, 0, 0])
        app.add_object(av)
        app.add_object(bvo)
        app.add_object(MemoryFile(objectIdentifier=("file", 1), objectName="file1", fileType="text",
                                  modificationDate=DateTime(date=(126, 9, 26, 6), time=(12, 0, 0, 0)), archive=False, readOnly=False))
        return app, av, bvo

    def inject(self, octets, settle=True, other=False, twin=False):
        """Put raw octets on the wire toward the device (twin=True: toward the second device), as sent by the tester
        station (other=True: by a second station)."""
        if self.level == "lan":
            pdu = PDU(octets, source=Address(TESTER2_MAC if other else TESTER_MAC),
                      destination=Address(TWIN_MAC if twin else DEVICE_MAC))
        else:
            pdu = PDU(octets, source=TESTER2_TUPLE if other else TESTER_TUPLE, destination=TWIN_TUPLE if twin else DEVICE_TUPLE)
        try:
            Network.process_pdu(self.net, pdu)
        except Exception as err:      # mirror of the catch-all of core.run around the delivering task
            self.errors.append("%s: %s" % (type(err).__name__, str(err)[:120]))
        if settle:
            self.settle()

    def inject_deferred(self, frames):
        """Hand several datagrams to the stack in ONE batch of deferred calls, the way UDPDirector.handle_read hands
        over what one poll of the sockets found; nothing is caught here: isolation is the event loop's business."""
        for octets in frames:
            if self.level == "lan":
                pdu = PDU(octets, source=Address(TESTER_MAC), destination=Address(DEVICE_MAC))
            else:
                pdu = PDU(octets, source=TESTER_TUPLE, destination=DEVICE_TUPLE)
            _core.deferred(Network.process_pdu, self.net, pdu)
        self.settle()

    def settle(self):
        try:
            vclock.settle()
        except vclock.Livelock as err:
            self.errors.append("Livelock: %s" % err)

    def run_quiet(self, horizon=400.0, max_events=5000):
        """Let every timer up to `horizon` fire; frames the device sends stay parked (the tester never answers)."""
        n = 0
        self.settle()
        while True:
            nd = vclock.next_due()
            if nd is None or nd > horizon:
                break
            try:
                vclock.advance_to(nd)
            except vclock.Livelock as err:
                self.errors.append("Livelock: %s" % err)
                break
            n += 1
            if n > max_events:
                self.errors.append("Livelock: more than %d timer events" % max_events)
                break
        return n

    def sent(self):
        """Octets of every frame the device put on the wire (toward anybody), in order."""
        return [(dst, data) for (t, net, src, dst, data) in self.wire.log]

    def sent_by(self, twin=False, start=0):
        """(dst, octets) of the frames one of the two devices sent (from position `start` of the wire log on)."""
        if self.level == "lan":
            me = str(TWIN_MAC if twin else DEVICE_MAC)
            return [(dst, data) for (t, net, src, dst, data) in self.wire.log[start:] if src == me]
        me = (TWIN_TUPLE if twin else DEVICE_TUPLE)[0]
        return [(dst, data) for (t, net, src, dst, data) in self.wire.log[start:] if me in src]

    def residue(self, twin=False):
        out = {}
        smap = (self.twin if twin else self.app).smap
        if smap.clientTransactions:
            out["clientTransactions"] = [(t.invokeID, t.state) for t in smap.clientTransactions]
        if smap.serverTransactions:
            out["serverTransactions"] = [(t.invokeID, t.state) for t in smap.serverTransactions]
        if _core.deferredFns:
            out["deferredFns"] = len(_core.deferredFns)
        tasks = [(round(w, 3), type(t).__name__) for (w, n, t) in vclock.pending_tasks()]
        ssm = [t for t in tasks if "SSM" in t[1]]
        if ssm:
            out["transaction-timers"] = ssm
        return out
