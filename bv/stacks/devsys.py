"""S-DEV for C15: one device application and one client application stack on a controlled vlan.

device : Application + WhoIsIAmServices + ReadWritePropertyServices + ReadWritePropertyMultipleServices,
         a LocalDeviceObject (vendor 999) and whatever objects the caller adds
client : ApplicationIOController (an ordinary BACnet client stack)

Both are wired Application -> ASAP -> SMAP -> NSAP -> vlan.Node exactly as tests/test_service/helpers.py
does.  The network is perfect (wire.auto = True): every frame is delivered at once, the virtual event
loop is run to quiescence after every request.

Replies are returned *decoded into neutral tuples* (no bacpypes objects):

    read   ("ack", octets-of-the-value)  | ("error", class, code) | ("reject", name) | ("abort", name) | ("none", why)
    write  ("ack",)                      | ...
    rpm    ("ack", ((objid, ((prop, index, ("value", octets) | ("error", class, code)), ...)), ...)) | ...

`octets` is the tag encoding of the property value exactly as it travelled in the PDU.
"""
import bv  # noqa: F401
from bacpypes.comm import bind
from bacpypes.iocb import IOCB
from bacpypes.pdu import Address, PDUData
from bacpypes.app import Application, ApplicationIOController
from bacpypes.appservice import StateMachineAccessPoint, ApplicationServiceAccessPoint
from bacpypes.netservice import NetworkServiceAccessPoint, NetworkServiceElement
from bacpypes.service.device import WhoIsIAmServices
from bacpypes.service.object import ReadWritePropertyServices, ReadWritePropertyMultipleServices
from bacpypes.local.device import LocalDeviceObject
from bacpypes.vlan import Node
from bacpypes.primitivedata import (TagList, Tag, Atomic, Null, Boolean, Unsigned, Integer, Real, Double, OctetString,
                                    CharacterString, BitString, Enumerated, Date, Time, ObjectIdentifier)
from bacpypes.constructeddata import (Any, AnyAtomic, Array, List, Choice, Sequence, SequenceOfAny, ArrayOf, ListOf,
                                      _sequence_of_classes, _list_of_classes, _array_of_classes)
from bacpypes.basetypes import BinaryPV, TimeStamp, OptionalCharacterString
from bacpypes.local.object import CurrentPropertyListMixIn
from bacpypes import object as _object
from bacpypes.apdu import (WritePropertyRequest, ReadPropertyRequest, ReadPropertyACK, SimpleAckPDU,
                           ReadPropertyMultipleRequest, ReadPropertyMultipleACK, ReadAccessSpecification,
                           PropertyReference, Error, RejectPDU, AbortPDU)

from bv.engine import vclock
from bv.engine.ctlnet import Wire, CtlNetwork
from bv.refs import propref as R

VENDOR = 999
DEVICE_INSTANCE = 2

# clause 18.9 / 18.10 (enumerations of BACnetRejectReason / BACnetAbortReason), transcribed
REJECT_NAMES = {0: "other", 1: "bufferOverflow", 2: "inconsistentParameters", 3: "invalidParameterDatatype",
                4: "invalidTag", 5: "missingRequiredParameter", 6: "parameterOutOfRange", 7: "tooManyArguments",
                8: "undefinedEnumeration", 9: "unrecognizedService"}
ABORT_NAMES = {0: "other", 1: "bufferOverflow", 2: "invalidApduInThisState", 3: "preemptedByHigherPriorityTask",
               4: "segmentationNotSupported", 5: "securityError", 6: "insufficientSecurity",
               7: "windowSizeOutOfRange", 8: "applicationExceededReplyTime", 9: "outOfResources",
               10: "tsmTimeout", 11: "apduTooLong"}


class _NSE(NetworkServiceElement):
    _startup_disabled = True


class DeviceApp(Application, WhoIsIAmServices, ReadWritePropertyServices, ReadWritePropertyMultipleServices):
    _startup_disabled = True


class ClientApp(ApplicationIOController):
    _startup_disabled = True


def _wire_up(app, device_object, lan, mac):
    app.asap = ApplicationServiceAccessPoint()
    app.smap = StateMachineAccessPoint(device_object)
    app.smap.deviceInfoCache = app.deviceInfoCache
    app.nsap = NetworkServiceAccessPoint()
    app.nse = _NSE()
    bind(app.nse, app.nsap)
    bind(app, app.asap, app.smap, app.nsap)
    app.node = Node(Address(mac), lan)
    app.nsap.bind(app.node)


def make_device_object(name, inst, **kw):
    args = dict(objectName=name, objectIdentifier=("device", inst), maxApduLengthAccepted=1476,
                segmentationSupported="segmentedBoth", maxSegmentsAccepted=64, vendorIdentifier=VENDOR,
                numberOfApduRetries=0, apduTimeout=3000)
    args.update(kw)
    return LocalDeviceObject(**args)


# ------------------------------------------------------------------------------------ octets

def tags_octets(tags):
    data = PDUData()
    TagList(list(tags)).encode(data)
    return bytes(data.pduData)


def any_octets(value):
    """Octets of the content of an Any."""
    return tags_octets(value.tagList)


def octets_any(octets):
    """Any holding exactly these tag octets."""
    tl = TagList()
    tl.decode(PDUData(bytes(octets)))
    a = Any()
    a.tagList.extend(tl.tagList)
    return a


def encodable_octets(*elements):
    """Tag octets of one or more encodable bacpypes values (atomic instance, sequence, choice, list ...)."""
    return any_octets(Any(*elements))


def objid_key(objid):
    return (str(objid[0]), int(objid[1]))


def prop_key(p):
    return p if isinstance(p, int) else str(p)


# ------------------------------------------------------------------------------------ canonical dump

def generic_canon(x, depth=0):
    """Canonical, hashable form of any property value: every attribute of every nested object is kept."""
    if depth > 10:
        return "<deep %s>" % type(x).__name__
    if x is None or isinstance(x, (bool, int, str, bytes)):
        return x
    if isinstance(x, float):
        return repr(x)
    if isinstance(x, bytearray):
        return bytes(x)
    if isinstance(x, (list, tuple)):
        return (type(x).__name__,) + tuple(generic_canon(i, depth + 1) for i in x)
    if isinstance(x, dict):
        return ("dict",) + tuple(sorted(((str(k), generic_canon(v, depth + 1)) for k, v in x.items())))
    if isinstance(x, Tag):
        return ("Tag", x.tagClass, x.tagNumber, x.tagLVT, bytes(x.tagData))
    d = getattr(x, "__dict__", None)
    if d is not None:
        return (type(x).__name__,) + tuple(sorted((k, generic_canon(v, depth + 1)) for k, v in d.items()
                                                  if not callable(v)))
    return "<%s %s>" % (type(x).__name__, repr(x)[:60])


def dump_objects(app):
    """Canonical dump of every object's `_values` (plus the application's two object indexes)."""
    out = []
    for oid in sorted(app.objectIdentifier, key=lambda o: (str(o[0]), o[1])):
        obj = app.objectIdentifier[oid]
        vals = tuple(sorted((str(k), generic_canon(v)) for k, v in obj._values.items()))
        out.append((objid_key(oid), type(obj).__name__, vals))
    names = tuple(sorted((str(k), objid_key(v._values.get("objectIdentifier") or ("?", -1)))
                         for k, v in app.objectName.items()))
    return (tuple(out), names)


# ------------------------------------------------------------------------------------ the system

class DevSystem(object):
    """client (mac 1) and device (mac 2) on one controlled LAN, perfect delivery."""

    CLIENT_MAC = 1
    DEVICE_MAC = 2

    def __init__(self, objects=(), device_kwargs=None):
        vclock.reset(0.0)
        self.wire = Wire()
        self.wire.auto = True
        self.lan = CtlNetwork(self.wire, "lan")
        self.client = ClientApp(make_device_object("client", 1))
        _wire_up(self.client, self.client.localDevice, self.lan, self.CLIENT_MAC)
        self.device = DeviceApp(make_device_object("device", DEVICE_INSTANCE, **(device_kwargs or {})))
        _wire_up(self.device, self.device.localDevice, self.lan, self.DEVICE_MAC)
        self.dest = Address(self.DEVICE_MAC)
        self.transactions = 0
        self.echoed = None
        for obj in objects:
            self.device.add_object(obj)

    # ---- state
    def dump(self):
        return dump_objects(self.device)

    def swallowed(self):
        return list(vclock.swallowed) + [("wire", e) for e in self.wire.errors]

    # ---- transport
    def _transact(self, req):
        req.pduDestination = self.dest
        iocb = IOCB(req)
        self.client.request_io(iocb)
        vclock.settle()
        self.wire.flush()
        self.transactions += 1
        if iocb.ioResponse is not None:
            return iocb.ioResponse
        if iocb.ioError is not None:
            return iocb.ioError
        # nothing at this instant: let the timers run (request timeout => abort from the client's own stack)
        vclock.run_until(vclock.clock.now + 20.0)
        if iocb.ioResponse is not None:
            return iocb.ioResponse
        if iocb.ioError is not None:
            return iocb.ioError
        return None

    # ---- services
    def read(self, objid, prop, index=None, answers=None):
        """`answers`: object identifiers the acknowledgement may carry (default: only the one asked for; the
        reference gives two for the wildcard Device instance).  The one it carried is kept in `self.echoed`."""
        req = ReadPropertyRequest(objectIdentifier=objid, propertyIdentifier=prop)
        if index is not None:
            req.propertyArrayIndex = index
        resp = self._transact(req)
        self.echoed = None
        if isinstance(resp, ReadPropertyACK):
            echo = (objid_key(resp.objectIdentifier), prop_key(resp.propertyIdentifier), resp.propertyArrayIndex)
            want = (objid_key(objid), prop_key(prop), index)
            if echo[1:] != want[1:] or echo[0] not in (answers if answers is not None else (want[0],)):
                return ("ack-for-something-else", echo)
            self.echoed = echo[0]
            return ("ack", any_octets(resp.propertyValue))
        return classify(resp)

    def write(self, objid, prop, octets, index=None, priority=None):
        """`octets`: tag octets of the value (bytes) or an Any."""
        req = WritePropertyRequest(objectIdentifier=objid, propertyIdentifier=prop)
        req.propertyValue = octets if isinstance(octets, Any) else octets_any(octets)
        if index is not None:
            req.propertyArrayIndex = index
        if priority is not None:
            req.priority = priority
        return classify(self._transact(req))

    def rpm(self, specs):
        """specs: [(objid, [(prop, index), ...]), ...]"""
        req = ReadPropertyMultipleRequest(listOfReadAccessSpecs=[
            ReadAccessSpecification(objectIdentifier=objid, listOfPropertyReferences=[
                PropertyReference(propertyIdentifier=p, propertyArrayIndex=i) if i is not None
                else PropertyReference(propertyIdentifier=p) for (p, i) in refs])
            for (objid, refs) in specs])
        resp = self._transact(req)
        if isinstance(resp, ReadPropertyMultipleACK):
            out = []
            for res in resp.listOfReadAccessResults:
                elems = []
                for el in (res.listOfResults or []):
                    rr = el.readResult
                    if rr is not None and rr.propertyValue is not None and rr.propertyAccessError is None:
                        r = ("value", any_octets(rr.propertyValue))
                    elif rr is not None and rr.propertyAccessError is not None and rr.propertyValue is None:
                        r = ("error", str(rr.propertyAccessError.errorClass), str(rr.propertyAccessError.errorCode))
                    else:
                        r = ("malformed-result",)
                    elems.append((prop_key(el.propertyIdentifier), el.propertyArrayIndex, r))
                out.append((objid_key(res.objectIdentifier), tuple(elems)))
            return ("ack", tuple(out))
        return classify(resp)


def classify(resp):
    if resp is None:
        return ("none", "no reply and no local abort within 20 s")
    if isinstance(resp, SimpleAckPDU):
        return ("ack",)
    if isinstance(resp, Error):
        return ("error", str(resp.errorClass), str(resp.errorCode))
    if isinstance(resp, RejectPDU):
        r = resp.apduAbortRejectReason
        return ("reject", REJECT_NAMES.get(r, r))
    if isinstance(resp, AbortPDU):
        r = resp.apduAbortRejectReason
        return ("abort", ABORT_NAMES.get(r, r))
    return ("other", type(resp).__name__)


# ====================================================================================================
# Typed items (what bv.refs.propref works on) from live bacpypes values
# ====================================================================================================


def kind_of_octets(octets, typename):
    """("app", n) if the octets are exactly one application-tagged primitive, else ("con", typename)."""
    tl = TagList()
    tl.decode(PDUData(bytes(octets)))
    if len(tl.tagList) == 1 and tl.tagList[0].tagClass == Tag.applicationTagClass:
        return ("app", tl.tagList[0].tagNumber)
    return ("con", typename)


def item(enc, typename=None):
    """Item of one encodable bacpypes value (atomic instance, sequence, choice)."""
    o = encodable_octets(enc)
    return (kind_of_octets(o, typename or type(enc).__name__), o)


def kinds_of(dt):
    """Kinds of single items a value of datatype `dt` can be on the wire."""
    if issubclass(dt, AnyAtomic):
        return R.ALL_APP
    if issubclass(dt, Atomic):
        return frozenset([("app", dt._app_tag)])
    if issubclass(dt, Choice):
        ks = set()
        for el in dt.choiceElements:
            if el.context is None and isinstance(el.klass, type) and issubclass(el.klass, AnyAtomic):
                ks |= R.ALL_APP
            elif el.context is None and isinstance(el.klass, type) and issubclass(el.klass, Atomic):
                ks.add(("app", el.klass._app_tag))
            elif el.context is None and isinstance(el.klass, type) and issubclass(el.klass, Choice):
                ks |= kinds_of(el.klass)
                ks.add(("con", dt.__name__))
            else:
                ks.add(("con", dt.__name__))
        return frozenset(ks)
    return frozenset([("con", dt.__name__)])


def ptype_of(dt):
    if issubclass(dt, Array):
        return ("array", kinds_of(dt.subtype), dt.fixed_length)
    if issubclass(dt, List):
        return ("list", kinds_of(dt.subtype))
    return ("one", kinds_of(dt))


def first_tags(dt, depth=0):
    """Application tag numbers with which an encoded value of `dt` may begin (None in the set = anything)."""
    out = set()
    if depth > 6:
        return set([None])
    if not isinstance(dt, type):
        return set([None])
    if issubclass(dt, AnyAtomic):
        return set([None])
    if issubclass(dt, Atomic):
        return set([dt._app_tag])
    if issubclass(dt, Choice):
        for el in dt.choiceElements:
            if el.context is None:
                out |= first_tags(el.klass, depth + 1)
        return out
    if issubclass(dt, Sequence):
        for el in dt.sequenceElements:
            if el.context is None:
                out |= first_tags(el.klass, depth + 1)
            if not el.optional:
                break
        else:
            out.add(None)       # everything optional: an empty encoding is a value, anything may follow
        return out
    if dt in _sequence_of_classes or dt in _list_of_classes or dt in _array_of_classes:
        return first_tags(dt.subtype, depth + 1) | set([None])
    return set([None])


WRONG_CANDIDATES = [Real(7.5), Unsigned(7), CharacterString("wrong"), Boolean(True), OctetString(b"\x07")]


def wrong_item(dt):
    """One application-tagged primitive that cannot be (the beginning of) a value of `dt`; None if there is none."""
    base = dt.subtype if issubclass(dt, (Array, List)) else dt
    ft = first_tags(base)
    if None in ft:
        return None
    ks = kinds_of(base)
    for cand in WRONG_CANDIDATES:
        if cand._app_tag not in ft and ("app", cand._app_tag) not in ks:
            return item(cand)
    return None


# ====================================================================================================
# Value generator (per-type sweep): one value per datatype, recursively over sequenceElements /
# choiceElements / subtype.  `v` selects the variant (leaf values and choice alternatives differ).
# ====================================================================================================

class CannotGenerate(Exception):
    pass


def _enum_name(dt, v):
    names = sorted(dt.enumerations.items(), key=lambda kv: (kv[1], kv[0]))
    if not names:
        return 1 + v
    return names[v % len(names)][0]


def gen_atomic(dt, v):
    """raw python value for an Atomic subclass"""
    if issubclass(dt, Null):
        return ()
    if issubclass(dt, Boolean):
        return v % 2 == 0
    if issubclass(dt, Unsigned):
        return 1 + v
    if issubclass(dt, Integer):
        return -1 - v
    if issubclass(dt, Real):
        return 1.5 + v
    if issubclass(dt, Double):
        return 1.25 + v
    if issubclass(dt, OctetString):
        return bytes([1 + v, 2])
    if issubclass(dt, CharacterString):
        return "s%d" % v
    if issubclass(dt, BitString):
        n = getattr(dt, "bitLen", 0) or 3
        return [(i + v) % 2 for i in range(n)]
    if issubclass(dt, Enumerated):
        return _enum_name(dt, v)
    if issubclass(dt, Date):
        return (120, 5, 17 + v, 255)
    if issubclass(dt, Time):
        return (1, 2, 3, 4 + v)
    if issubclass(dt, ObjectIdentifier):
        return ("analogValue", 1 + v)
    raise CannotGenerate("atomic %s" % dt.__name__)


ANY_ATOMS = [Real, Unsigned, CharacterString]


def gen_elem(klass, v, depth=0):
    """python value usable as attribute of a Sequence/Choice element or as array/list element"""
    if depth > 8:
        raise CannotGenerate("too deep at %s" % getattr(klass, "__name__", klass))
    if klass in _sequence_of_classes or klass in _list_of_classes:
        if depth > 4:
            return []
        return [gen_elem(klass.subtype, v, depth + 1)]
    if klass in _array_of_classes:
        n = klass.fixed_length if klass.fixed_length is not None else 2
        return klass([gen_elem(klass.subtype, v + i, depth + 1) for i in range(n)])
    if issubclass(klass, AnyAtomic):
        a = ANY_ATOMS[v % len(ANY_ATOMS)]
        return a(gen_atomic(a, v))
    if issubclass(klass, Atomic):
        return gen_atomic(klass, v)
    if issubclass(klass, SequenceOfAny):
        raise CannotGenerate("SequenceOfAny")
    if issubclass(klass, Any):
        a = ANY_ATOMS[v % len(ANY_ATOMS)]
        return Any(a(gen_atomic(a, v)))
    if issubclass(klass, Choice):
        els = list(klass.choiceElements)
        simple = [el for el in els if isinstance(el.klass, type) and issubclass(el.klass, Atomic)
                  and not issubclass(el.klass, AnyAtomic)]
        order = simple + [el for el in els if el not in simple]
        if not order:
            raise CannotGenerate("empty choice %s" % klass.__name__)
        if depth > 3 and simple:
            order = simple
        last = None
        for k in range(len(order)):
            el = order[(v + k) % len(order)]
            try:
                return klass(**{el.name: gen_elem(el.klass, v, depth + 1)})
            except CannotGenerate as err:
                last = err
        raise CannotGenerate("choice %s: %s" % (klass.__name__, last))
    if issubclass(klass, Sequence):
        kw = {}
        for el in klass.sequenceElements:
            if el.optional and (v % 2 == 1 or depth > 2):
                continue
            try:
                kw[el.name] = gen_elem(el.klass, v, depth + 1)
            except CannotGenerate:
                if not el.optional:
                    raise
        return klass(**kw)
    raise CannotGenerate("class %s" % getattr(klass, "__name__", klass))


class Generated(object):
    """A generated property value: `py` is what the object is constructed with, `items` its typed items."""
    __slots__ = ("py", "items", "n")

    def __init__(self, py, items):
        self.py = py
        self.items = items
        self.n = len(items)


def _elem_item(subtype, e):
    if issubclass(subtype, AnyAtomic):
        return item(e, subtype.__name__)
    if issubclass(subtype, Atomic):
        return item(subtype(e), subtype.__name__)
    return item(e, subtype.__name__)


def _reencode(dt, octets):
    """octets -> bacpypes value of datatype dt -> octets, CannotGenerate if the codec refuses"""
    try:
        back = octets_any(octets).cast_out(dt)
        if isinstance(back, list) and issubclass(dt, (Array, List)):
            return encodable_octets(dt(back))
        if issubclass(dt, AnyAtomic) or not issubclass(dt, Atomic):
            return encodable_octets(back)
        return encodable_octets(dt(back))
    except Exception as err:
        raise CannotGenerate("codec: %s: %s" % (type(err).__name__, str(err)[:80]))


def gen_property(dt, v, n=2):
    """Generated value of a property datatype, checked to survive bacpypes' own encode -> decode -> encode
    (a codec problem is the business of C01..C03, such a datatype is skipped here)."""
    try:
        if issubclass(dt, Array):
            cnt = dt.fixed_length if dt.fixed_length is not None else n
            elems = [gen_elem(dt.subtype, v + i) for i in range(cnt)]
            py = dt(list(elems))
            items = [_elem_item(dt.subtype, e) for e in elems]
        elif issubclass(dt, List):
            elems = [gen_elem(dt.subtype, v + i) for i in range(n)]
            py = list(elems)
            items = [_elem_item(dt.subtype, e) for e in elems]
        else:
            e = gen_elem(dt, v)
            py = e
            items = [_elem_item(dt, e)]
    except CannotGenerate:
        raise
    except Exception as err:
        raise CannotGenerate("codec(encode): %s: %s" % (type(err).__name__, str(err)[:80]))
    # round trip through the codec
    whole = R.concat(items)
    if _reencode(dt, whole) != whole:
        raise CannotGenerate("codec: value does not survive encode/decode/encode")
    if issubclass(dt, (Array, List)):
        for it in items:
            if _reencode(dt.subtype, it[1]) != it[1]:
                raise CannotGenerate("codec(element): value does not survive encode/decode/encode")
    return Generated(py, items)


# ====================================================================================================
# Object classes of the sweep
# ====================================================================================================

PLAIN_DESCRIPTORS = (_object.ReadableProperty, _object.OptionalProperty, _object.WritableProperty)
TWIN_VENDOR = 998
_twins = {}


def sweep_classes():
    """Every registered standard object class, sorted by type name."""
    return [cls for (t, vendor), cls in sorted(_object.registered_object_types.items(), key=lambda kv: (str(kv[0][0]), kv[0][1]))
            if vendor == 0]


def writable_twin(cls):
    """Subclass of a registered class in which every plainly described property is re-declared writable
    (what an application does to open properties for writing); registered under its own vendor id."""
    tw = _twins.get(cls)
    if tw is None:
        props = []
        for pid, p in cls._properties.items():
            if type(p) in PLAIN_DESCRIPTORS and pid not in ("objectType", "objectIdentifier", "propertyList"):
                props.append(_object.WritableProperty(pid, p.datatype, optional=p.optional, mutable=True))
        tw = type("Writable" + cls.__name__, (cls,), {"properties": props})
        tw = _object.register_object_type(tw, vendor_id=TWIN_VENDOR)
        _twins[cls] = tw
    return tw


# ====================================================================================================
# Objects of the history part
# ====================================================================================================


@_object.register_object_type(vendor_id=VENDOR)
class HAnalogValue(_object.AnalogValueObject):
    properties = [_object.WritableProperty("presentValue", Real)]


@_object.register_object_type(vendor_id=VENDOR)
class HBinaryValue(_object.BinaryValueObject):
    properties = [_object.WritableProperty("presentValue", BinaryPV),
                  _object.WritableProperty("eventTimeStamps", ArrayOf(TimeStamp, 3), optional=True)]


@_object.register_object_type(vendor_id=VENDOR)
class HMultiStateValue(CurrentPropertyListMixIn, _object.MultiStateValueObject):
    properties = [_object.WritableProperty("presentValue", Unsigned),
                  _object.WritableProperty("stateText", ArrayOf(CharacterString), optional=True),
                  _object.WritableProperty("alarmValues", ListOf(Unsigned), optional=True)]


@_object.register_object_type(vendor_id=VENDOR)
class HCharacterStringValue(_object.CharacterStringValueObject):
    properties = [_object.WritableProperty("presentValue", CharacterString)]


HIST_DEVICE_KW = dict(systemStatus="operational", vendorName="verif", modelName="S-DEV", firmwareRevision="1",
                      applicationSoftwareVersion="1", protocolVersion=1, protocolRevision=22, databaseRevision=1,
                      deviceAddressBinding=[], location="lab", description="device under exploration")


def history_objects():
    """Fresh bacpypes objects of the history part, in the order they are added to the device."""
    sf = [0, 0, 0, 0]
    av = HAnalogValue(objectIdentifier=("analogValue", 1), objectName="av1", presentValue=1.5, statusFlags=sf,
                      eventState="normal", outOfService=False, units="degreesCelsius", description="analog",
                      covIncrement=0.5,
                      eventMessageTextsConfig=ArrayOf(CharacterString, 3)(["to-offnormal", "to-fault", "to-normal"]))
    bv_ = HBinaryValue(objectIdentifier=("binaryValue", 1), objectName="bv1", presentValue="inactive", statusFlags=sf,
                       eventState="normal", outOfService=False, activeText="on", inactiveText="off",
                       description="binary",
                       eventTimeStamps=ArrayOf(TimeStamp, 3)([TimeStamp(sequenceNumber=1), TimeStamp(sequenceNumber=2),
                                                              TimeStamp(time=(1, 2, 3, 4))]))
    msv = HMultiStateValue(objectIdentifier=("multiStateValue", 1), objectName="msv1", presentValue=1,
                           statusFlags=sf, eventState="normal", outOfService=False, numberOfStates=3,
                           stateText=ArrayOf(CharacterString)(["one", "two", "three"]), alarmValues=[1, 2],
                           faultValues=[3])
    csv = HCharacterStringValue(objectIdentifier=("characterstringValue", 1), objectName="csv1",
                                presentValue="hello", statusFlags=sf, eventState="normal", outOfService=False,
                                alarmValues=ArrayOf(OptionalCharacterString)(
                                    [OptionalCharacterString(characterString="al"), OptionalCharacterString(null=())]))
    return [av, bv_, msv, csv]


def history_system():
    return DevSystem(history_objects(), device_kwargs=HIST_DEVICE_KW)
