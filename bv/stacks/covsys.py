"""S-DEV for C16: one COV server device and 1..2 subscriber stacks on a perfect controlled vlan.

device      : ApplicationIOController + ChangeOfValueServices + ReadWritePropertyServices, a LocalDeviceObject
              and five COV-capable objects (analog value with covIncrement 1.0, binary value, multi-state
              value, pulse converter with covPeriod 0, pulse converter with covPeriod 3)
subscribers : Application stacks that record every Confirmed/UnconfirmedCOVNotification they receive
              (answering the confirmed ones with SimpleAck) and every reply to their own requests

Every stack is wired Application -> ASAP -> SMAP -> NSAP -> vlan.Node as tests/test_service/helpers.py does.
The network is perfect (wire.auto = True); after every driver action the real event loop is run until the
instant is quiet.  Everything a subscriber sees is reduced to neutral tuples; the values of a notification are
decoded from their tag octets with a small decoder of our own (clause 20.2), not by bacpypes.
"""
import struct

import bv  # noqa: F401
from bacpypes.comm import bind
from bacpypes.pdu import Address
from bacpypes.app import Application, ApplicationIOController
from bacpypes.appservice import StateMachineAccessPoint, ApplicationServiceAccessPoint
from bacpypes.netservice import NetworkServiceAccessPoint, NetworkServiceElement
from bacpypes.service.cov import ChangeOfValueServices
from bacpypes.service.object import ReadWritePropertyServices
from bacpypes.vlan import Node
from bacpypes.constructeddata import ListOf
from bacpypes.basetypes import COVSubscription
from bacpypes.object import (AnalogValueObject, BinaryValueObject, MultiStateValueObject, PulseConverterObject)
from bacpypes.basetypes import DateTime
from bacpypes.apdu import (SubscribeCOVRequest, ReadPropertyRequest, ReadPropertyACK, SimpleAckPDU, ComplexAckPDU,
                           ErrorPDU, RejectPDU, AbortPDU, Error)

from bv.engine import vclock
from bv.engine.ctlnet import Wire, CtlNetwork
from bv.engine.canon import canon
from bv.stacks.app import make_device

DEVICE_MAC = 1
DEVICE_INSTANCE = 1
SUB_MACS = (11, 12)
COV_PERIOD = 3          # seconds, of the pulse converter that reports periodically

# object kinds of the device: key -> (object identifier, datatype of the present value)
KINDS = {
    "av": (("analogValue", 1), "real"),
    "bv": (("binaryValue", 1), "enum"),
    "msv": (("multiStateValue", 1), "unsigned"),
    "pc": (("pulseConverter", 1), "real"),          # covPeriod 0: no periodic notifications
    "pcp": (("pulseConverter", 2), "real"),         # covPeriod COV_PERIOD
}
INITIAL = {"av": 0.0, "bv": 0, "msv": 1, "pc": 0.0, "pcp": 0.0}
INCREMENT = {"av": 1.0, "pc": 1.0, "pcp": 1.0}
BINARY_NAMES = ("inactive", "active")


class _NSE(NetworkServiceElement):
    _startup_disabled = True


def _wire_up(app, device_object, lan, mac):
    app.address = Address(mac)
    app.asap = ApplicationServiceAccessPoint()
    app.smap = StateMachineAccessPoint(device_object)
    app.smap.deviceInfoCache = app.deviceInfoCache
    app.nsap = NetworkServiceAccessPoint()
    app.nse = _NSE()
    bind(app.nse, app.nsap)
    bind(app, app.asap, app.smap, app.nsap)
    app.node = Node(app.address, lan)
    app.nsap.bind(app.node)


class DeviceApp(ApplicationIOController, ChangeOfValueServices, ReadWritePropertyServices):
    _startup_disabled = True


# ----------------------------------------------------------------------------- neutral decoding (clause 20.2)

def decode_app_tag(tag):
    """One application-tagged primitive -> python value (only the types a COV notification of our objects carries)."""
    n = tag.tagNumber
    data = bytes(tag.tagData)
    if tag.tagClass != 0:
        return ("context", n, data)
    if n == 2 or n == 9:                    # unsigned, enumerated
        return int.from_bytes(data, "big")
    if n == 4:                              # real
        return struct.unpack(">f", data)[0]
    if n == 8:                              # bit string: unused-bit count, then the bits
        unused = data[0]
        bits = []
        for b in data[1:]:
            bits.extend((b >> (7 - i)) & 1 for i in range(8))
        return tuple(bits[:len(bits) - unused] if unused else bits)
    if n == 1:
        return bool(tag.tagLVT)
    if n == 0:
        return None
    return ("app", n, data)


def neutral_values(list_of_values):
    """listOfValues of a notification -> ((property name, array index, (values...), priority), ...)"""
    out = []
    for pv in list_of_values or []:
        vals = tuple(decode_app_tag(t) for t in pv.value.tagList)
        out.append((str(pv.propertyIdentifier), pv.propertyArrayIndex, vals, pv.priority))
    return tuple(out)


def neutral_reply(apdu):
    if isinstance(apdu, SimpleAckPDU):
        return ("ack",)
    if isinstance(apdu, ComplexAckPDU):
        return ("complex-ack", type(apdu).__name__)
    if isinstance(apdu, (ErrorPDU, Error)):
        et = getattr(apdu, "errorType", apdu)
        return ("error", str(getattr(et, "errorClass", None)), str(getattr(et, "errorCode", None)))
    if isinstance(apdu, RejectPDU):
        return ("reject", apdu.apduAbortRejectReason)
    if isinstance(apdu, AbortPDU):
        return ("abort", apdu.apduAbortRejectReason)
    return ("other", type(apdu).__name__)


class SubscriberApp(Application):
    """An ordinary BACnet client that subscribes, records what it is told and acknowledges confirmed notifications."""
    _startup_disabled = True

    def __init__(self, device_object, lan, mac, seq):
        Application.__init__(self, device_object)
        _wire_up(self, device_object, lan, mac)
        self._seq = seq                 # shared counter: order of everything any subscriber observes
        self.notifications = []         # dicts, see _note
        self.replies = []               # (seq, time, invoke id, neutral reply, apdu)

    def _note(self, apdu, confirmed):
        self._seq[0] += 1
        self.notifications.append({
            "seq": self._seq[0], "t": vclock.clock.now, "confirmed": confirmed,
            "pid": apdu.subscriberProcessIdentifier,
            "device": tuple(apdu.initiatingDeviceIdentifier) if apdu.initiatingDeviceIdentifier else None,
            "obj": tuple(apdu.monitoredObjectIdentifier) if apdu.monitoredObjectIdentifier else None,
            "remaining": apdu.timeRemaining,
            "values": neutral_values(apdu.listOfValues),
            "src": str(apdu.pduSource),
        })

    def do_ConfirmedCOVNotificationRequest(self, apdu):
        self._note(apdu, True)
        self.response(SimpleAckPDU(context=apdu))

    def do_UnconfirmedCOVNotificationRequest(self, apdu):
        self._note(apdu, False)

    def confirmation(self, apdu):
        self._seq[0] += 1
        self.replies.append((self._seq[0], vclock.clock.now, apdu.apduInvokeID, neutral_reply(apdu), apdu))


def make_objects():
    """The five monitored objects, fresh."""
    now = DateTime(date=(100, 1, 1, 1), time=(0, 0, 0, 0))
    return {
        "av": AnalogValueObject(objectIdentifier=KINDS["av"][0], objectName="av", presentValue=INITIAL["av"],
                                statusFlags=[0, 0, 0, 0], covIncrement=INCREMENT["av"]),
        "bv": BinaryValueObject(objectIdentifier=KINDS["bv"][0], objectName="bv", presentValue="inactive",
                                statusFlags=[0, 0, 0, 0]),
        "msv": MultiStateValueObject(objectIdentifier=KINDS["msv"][0], objectName="msv", presentValue=INITIAL["msv"],
                                     numberOfStates=4, statusFlags=[0, 0, 0, 0]),
        "pc": PulseConverterObject(objectIdentifier=KINDS["pc"][0], objectName="pc", presentValue=INITIAL["pc"],
                                   statusFlags=[0, 0, 0, 0], updateTime=now, covIncrement=INCREMENT["pc"], covPeriod=0),
        "pcp": PulseConverterObject(objectIdentifier=KINDS["pcp"][0], objectName="pcp", presentValue=INITIAL["pcp"],
                                    statusFlags=[0, 0, 0, 0], updateTime=now, covIncrement=INCREMENT["pcp"],
                                    covPeriod=COV_PERIOD),
    }


class CovSystem(object):
    """The closed system: build, then call the action helpers; each one runs the instant to quiescence."""

    def __init__(self, n_subscribers=2, pids=(1, 2), start=0.0):
        vclock.reset(start)
        self.wire = Wire()
        self.wire.auto = True
        self.net = CtlNetwork(self.wire, "lan")
        self.device_object = make_device("cov-device", DEVICE_INSTANCE, numberOfApduRetries=0)
        self.device = DeviceApp(self.device_object)
        _wire_up(self.device, self.device_object, self.net, DEVICE_MAC)
        self.objects = make_objects()
        for k in ("av", "bv", "msv", "pc", "pcp"):
            self.device.add_object(self.objects[k])
        self.seq = [0]
        self.subs = []
        self.pids = tuple(pids[:n_subscribers])
        for i in range(n_subscribers):
            dobj = make_device("subscriber-%d" % i, 100 + i, numberOfApduRetries=0)
            self.subs.append(SubscriberApp(dobj, self.net, SUB_MACS[i], self.seq))
        self.errors = []
        self.settle()

    # ---- event loop
    def settle(self):
        vclock.settle()
        if self.wire.inflight:          # cannot happen with auto delivery; kept as a guard
            self.wire.flush()

    def advance(self, dt=1.0):
        """Let dt seconds pass: every timer due in the interval fires at its own time, then the clock rests at now+dt."""
        t_end = vclock.clock.now + dt
        vclock.run_until(t_end)
        self.settle()

    # ---- subscriber side
    def _send(self, i, req):
        sub = self.subs[i]
        req.pduDestination = Address(DEVICE_MAC)
        before = len(sub.replies)
        try:
            sub.request(req)
        except Exception as err:        # a request that cannot even be encoded is a harness problem
            self.errors.append("request:%s:%s" % (type(err).__name__, str(err)[:120]))
        self.settle()
        return sub.replies[before:]

    def subscribe(self, i, kind, confirmed, lifetime, pid=None):
        """Subscribe or re-subscribe.  confirmed / lifetime None leaves the parameter out of the request."""
        kw = dict(subscriberProcessIdentifier=self.pids[i] if pid is None else pid,
                  monitoredObjectIdentifier=KINDS[kind][0])
        if confirmed is not None:
            kw["issueConfirmedNotifications"] = bool(confirmed)
        if lifetime is not None:
            kw["lifetime"] = lifetime
        return self._send(i, SubscribeCOVRequest(**kw))

    def cancel(self, i, kind, pid=None):
        return self.subscribe(i, kind, None, None, pid=pid)

    def read_active(self, i):
        """ReadProperty(device, activeCovSubscriptions) -> (replies, neutral list or None)

        neutral entry: (recipient net, recipient mac octets, process id, object id, property, confirmed, remaining, increment)"""
        req = ReadPropertyRequest(objectIdentifier=("device", DEVICE_INSTANCE), propertyIdentifier="activeCovSubscriptions")
        replies = self._send(i, req)
        listing = None
        if len(replies) == 1 and isinstance(replies[0][4], ReadPropertyACK):
            try:
                value = replies[0][4].propertyValue.cast_out(ListOf(COVSubscription))
                listing = []
                for ent in value:
                    rp = ent.recipient
                    addr = rp.recipient.address
                    ref = ent.monitoredPropertyReference
                    listing.append((addr.networkNumber if addr is not None else None,
                                    bytes(addr.macAddress) if addr is not None else None,
                                    rp.processIdentifier, tuple(ref.objectIdentifier), str(ref.propertyIdentifier),
                                    ent.issueConfirmedNotifications, ent.timeRemaining, ent.covIncrement))
            except Exception as err:
                listing = None
                self.errors.append("active-list-undecodable:%s:%s" % (type(err).__name__, str(err)[:120]))
        return replies, listing

    # ---- device side (what the tests do: assign the property of the local object)
    def write_value(self, kind, value, settle=True):
        obj = self.objects[kind]
        if KINDS[kind][1] == "enum":
            value = BINARY_NAMES[value]
        obj.presentValue = value
        if settle:
            self.settle()

    def write_flags(self, kind, flags, settle=True):
        self.objects[kind].statusFlags = list(flags)
        if settle:
            self.settle()

    # ---- observation
    def mark(self):
        return tuple(len(s.notifications) for s in self.subs), tuple(len(s.replies) for s in self.subs)

    def since(self, mark):
        n, r = mark
        return ([s.notifications[n[i]:] for i, s in enumerate(self.subs)],
                [s.replies[r[i]:] for i, s in enumerate(self.subs)])

    def swallowed(self):
        return list(vclock.swallowed) + [("wire", e) for e in self.wire.errors] + [("driver", e) for e in self.errors]

    def canon_state(self):
        """Canonical snapshot of everything the device remembers about COV, of its transaction layer and of the
        pending timers, relative to now.  Invoke-id counters and the observation logs are left out (see RULE)."""
        now = vclock.clock.now
        memo = {}
        dets = []
        for obj, det in self.device.cov_detections.items():
            dets.append((tuple(obj.objectIdentifier), canon(det, now, memo)))
        dets.sort(key=repr)
        values = tuple((k, canon(o._values.get("presentValue"), now), canon(o._values.get("statusFlags"), now),
                        tuple((p, len(fns)) for p, fns in sorted(o._property_monitors.items()) if fns))
                       for k, o in sorted(self.objects.items()))
        apps = []
        for app in [self.device] + self.subs:
            apps.append((len(app.smap.clientTransactions), len(app.smap.serverTransactions),
                         canon(getattr(app, "queue_by_address", None), now, memo)))
        tasks = tuple((round(when - now, 6), type(t).__name__) for (when, n, t) in vclock.pending_tasks())
        phase = round(now % COV_PERIOD, 6)
        return (tuple(dets), values, tuple(apps), tasks, phase)
