"""S-BIP: a B/IP internetwork of real BIPSimple / BIPBBMD / BIPForeign layers built from a layout description.

Every node is  recorder(Client) -> B/IP layer -> AnnexJCodec -> faux multiplexer -> vlan.IPNode  on a controlled
IP network (`CtlIPNetwork`: datagrams are parked on one shared `Wire`, the driver decides what is delivered next);
the subnets are joined by one `vlan.IPRouter`.  The recorder behaves like the decoder that stands there in a real
device: once it has written down the octets it was handed it consumes the buffer in place (`PDUData.get_data`, what
`NPDU.decode` does), so a B/IP layer that goes on using a PDU after handing it up is seen to do so.  With
`"upper": "nsap"` a node carries the library's real network layer instead:  application recorder(Client) ->
NetworkServiceAccessPoint (+ NetworkServiceElement) -> NetworkAdapter -> tap -> B/IP layer; the tap writes down the
octets that pass and hands the *same* PDU object on, the application recorder logs the APDUs the network layer
delivers, and broadcasts are originated as real APDUs through `NetworkServiceAccessPoint.indication`.  A BVLL service element is bound to the B/IP layer's SAP (it sends
Read-FDT / Delete-FDT-Entry and records what comes back).  A passive monitor parses every datagram with the
reference's own Annex J parser and feeds the lifetime reference with *observed* facts.

Layout (plain JSON-able dict):
    {"subnets": [[has_bbmd, n_ordinary], ...],      1..4 subnets, subnet i is 10.0.<i+1>.0/24
     "fds":     [i, ...],                           foreign device k registers with the BBMD of subnet i
     "fdnets":  [n, ...],                           optional: foreign subnet of device k (default: one of its own)
     "fdwire":  [None | i, ...],                    optional: device k sits on the wire of subnet i (10.0.<i+1>.<20+k>) instead
                                                    of a foreign subnet: it shares an IP subnet with that subnet's BBMD and
                                                    ordinary nodes while it is registered with the BBMD of subnet fds[k]
     "bdt":     "full" | {"<i>": [j, ...]},         peers listed by the BBMD of subnet i (it always lists itself)
     "mask":    "host" | "subnet" | {"<j>": ...},   how BBMD j is entered in every table: /32 (two-hop) or /24 (one-hop)
     "upper":   "rec" | "nsap" | {"bbmd"|"ord"|"fd": ...},  what sits above the B/IP layers (per kind of node; default "rec")
     "phase":   0.25}                               virtual start time
Node ids: b<i> BBMD of subnet i, o<i>a / o<i>b ordinary nodes, f<k> foreign devices.
"""
import socket
import struct

import bv  # noqa: F401
from bacpypes.comm import Client, Server, ApplicationServiceElement, bind
from bacpypes.pdu import Address, LocalBroadcast, GlobalBroadcast, PDU, unpack_ip_addr
from bacpypes.apdu import UnconfirmedRequestPDU
from bacpypes.netservice import NetworkServiceAccessPoint, NetworkServiceElement
from bacpypes.vlan import IPNode, IPRouter
from bacpypes.bvllservice import BIPSimple, BIPForeign, BIPBBMD, AnnexJCodec
from bacpypes.bvll import ReadForeignDeviceTable, DeleteForeignDeviceTableEntry

from bv.engine import vclock
from bv.engine.ctlnet import Wire, CtlIPNetwork
from bv.engine.canon import canon
from bv.refs import bbmdref

PORT = 47808
MAX_FLUSH = 3000        # datagrams delivered in one instant before we call it a storm


# ----------------------------------------------------------------------------- layers supplied by the harness

class FauxMux(Client, Server):
    """Stand-in for UDPMultiplexer (same as tests/test_bvll/helpers.FauxMultiplexer): maps LocalBroadcast to the
    subnet's broadcast tuple on the way down and back on the way up."""

    def __init__(self, addr, network):
        Client.__init__(self)
        Server.__init__(self)
        self.address = addr
        self.unicast_tuple = addr.addrTuple
        self.broadcast_tuple = addr.addrBroadcastTuple
        self.node = IPNode(addr, network)
        bind(self, self.node)

    def indication(self, pdu):
        if pdu.pduDestination.addrType == Address.localBroadcastAddr:
            dest = self.broadcast_tuple
        elif pdu.pduDestination.addrType == Address.localStationAddr:
            dest = unpack_ip_addr(pdu.pduDestination.addrAddr)
        else:
            raise RuntimeError("invalid destination address type")
        self.request(PDU(pdu, source=self.unicast_tuple, destination=dest))

    def confirmation(self, pdu):
        src = Address(pdu.pduSource)
        if pdu.pduDestination == self.broadcast_tuple:
            dest = LocalBroadcast()
        else:
            dest = Address(pdu.pduDestination)
        self.response(PDU(pdu, source=src, destination=dest))


def _addr_key(a):
    return (getattr(a, "addrType", None), bytes(getattr(a, "addrAddr", None) or b""))


class Recorder(Client):
    """Sits where the network layer would: logs every PDU the B/IP layer hands up, then consumes it in place the way
    the network layer's decoder does (the octets are taken out of the buffer that was handed up)."""

    def __init__(self, log):
        Client.__init__(self)
        self.log = log

    def confirmation(self, pdu):
        self.log.append((vclock.clock.now, _addr_key(pdu.pduSource), _addr_key(pdu.pduDestination), bytes(pdu.pduData)))
        pdu.get_data(len(pdu.pduData))


class Tap(Client, Server):
    """Between the real NetworkAdapter and the B/IP layer: writes down the octets that pass (same record as Recorder for
    what goes up) and hands the very same PDU object on, so the network layer above consumes what the B/IP layer built."""

    def __init__(self, log, down):
        Client.__init__(self)
        Server.__init__(self)
        self.log = log
        self.down = down

    def indication(self, pdu):
        self.down.append((vclock.clock.now, _addr_key(pdu.pduDestination), bytes(pdu.pduData)))
        self.request(pdu)

    def confirmation(self, pdu):
        self.log.append((vclock.clock.now, _addr_key(pdu.pduSource), _addr_key(pdu.pduDestination), bytes(pdu.pduData)))
        self.response(pdu)


class AppRecorder(Client):
    """Sits where the application layer would, above the real network layer: logs every APDU it delivers."""

    def __init__(self, log):
        Client.__init__(self)
        self.log = log

    def confirmation(self, apdu):
        # the network layer hands over a generic APDU: PDU type and service choice decoded, the rest as octets
        self.log.append((vclock.clock.now, _addr_key(apdu.pduSource), _addr_key(apdu.pduDestination), bytes(apdu.pduData),
                         (getattr(apdu, "apduType", None), getattr(apdu, "apduService", None))))


class QuietNSE(NetworkServiceElement):
    _startup_disabled = True


class BvllASE(ApplicationServiceElement):
    def __init__(self, log):
        ApplicationServiceElement.__init__(self)
        self.log = log

    def indication(self, pdu):
        self.log.append((vclock.clock.now, "ind", type(pdu).__name__))

    def confirmation(self, pdu):
        self.log.append((vclock.clock.now, "conf", type(pdu).__name__))


def ip6(ip, port=PORT):
    return socket.inet_aton(ip) + struct.pack("!H", port)


class BipNode(object):
    def __init__(self, nid, kind, ip, net, subnet_key, upper="rec"):
        self.id = nid
        self.upper = upper                  # rec: consuming recorder | nsap: the library's network layer
        self.kind = kind                    # bbmd | ord | fd
        self.ip = ip
        self.tuple = (ip, PORT)
        self.addr6 = ip6(ip)
        self.ref_addr = "%s:%d" % (ip, PORT)        # the reference parser's notation
        self.subnet = subnet_key
        self.net = net
        self.address = Address("%s/24:%d" % (ip, PORT))
        self.up = []                        # what the recorder / tap saw handed up by the B/IP layer
        self.app = []                       # nsap: what the network layer delivered to the application recorder
        self.down = []                      # nsap: what the network layer handed down to the B/IP layer
        self.sap = []                       # what the BVLL service element saw
        if kind == "bbmd":
            self.bip = BIPBBMD(self.address)
        elif kind == "fd":
            self.bip = BIPForeign()
        else:
            self.bip = BIPSimple()
        self.annexj = AnnexJCodec()
        self.mux = FauxMux(self.address, net)
        self.ase = BvllASE(self.sap)
        if upper == "nsap":
            self.rec = AppRecorder(self.app)
            self.nsap = NetworkServiceAccessPoint()
            self.nse = QuietNSE()
            bind(self.nse, self.nsap)
            bind(self.rec, self.nsap)
            self.tap = Tap(self.up, self.down)
            bind(self.tap, self.bip, self.annexj, self.mux)
            self.nsap.bind(self.tap)
        elif upper == "rec":
            self.rec = Recorder(self.up)
            bind(self.rec, self.bip, self.annexj, self.mux)
        else:
            raise ValueError("bipsys: upper layer %r" % (upper,))
        bind(self.ase, self.bip)


def norm_layout(layout):
    lay = dict(layout)
    lay["subnets"] = [list(s) for s in lay["subnets"]]
    lay.setdefault("fds", [])
    lay.setdefault("bdt", "full")
    lay.setdefault("mask", "host")
    lay.setdefault("phase", 0.25)
    lay.setdefault("upper", "rec")
    return lay


def upper_of(lay, kind):
    u = lay.get("upper", "rec")
    return u.get(kind, "rec") if isinstance(u, dict) else u


def npdu_payload(n):
    """Real NPDU octets: version 1, DNET=0xFFFF global broadcast, hop count 255, then an unconfirmed Who-Is whose
    device-instance limits carry a serial number so that every broadcast of a run is distinguishable."""
    n &= 0x3FFF
    return bytes([0x01, 0x20, 0xFF, 0xFF, 0x00, 0xFF, 0x10, 0x08, 0x0A, n >> 8, n & 0xFF, 0x1A, n >> 8, n & 0xFF])


def layout_topology(layout):
    """The reference's view of a layout, from the layout description alone (no stack is built): used to decide whether
    a layout is inside the statement before it is run.  BipSystem builds the same description from the nodes it
    really created and refuses to run if the two differ."""
    lay = norm_layout(layout)
    subnets, bbmd_of = {}, {}
    for i, (has_bbmd, n_ord) in enumerate(lay["subnets"]):
        key = "s%d" % i
        subnets[key] = []
        if has_bbmd:
            subnets[key].append("b%d" % i)
            bbmd_of[key] = "b%d" % i
        subnets[key].extend("o%d%s" % (i, "ab"[k]) for k in range(n_ord))
    bbmds = [bbmd_of["s%d" % i] for i in range(len(lay["subnets"])) if "s%d" % i in bbmd_of]
    bdt = {}
    for b in bbmds:
        if lay["bdt"] == "full":
            peers = [p for p in bbmds if p != b]
        else:
            peers = ["b%d" % j for j in lay["bdt"].get(b[1:], [])]
        bdt[b] = [b] + peers
    fdwire = lay.get("fdwire") or [None] * len(lay["fds"])
    wire_of = {"f%d" % k: "s%d" % int(w) for k, w in enumerate(fdwire) if w is not None}
    m = lay["mask"]
    onehop = [b for b in bbmds if (m.get(b[1:], "host") if isinstance(m, dict) else m) != "host"]
    return bbmdref.Topology(subnets, bbmd_of, bdt, ["f%d" % k for k in range(len(lay["fds"]))], wire_of=wire_of, onehop=onehop)


def layout_fdt(layout):
    """{bbmd: set(fd)} when every foreign device of the layout is registered with its home BBMD"""
    out = {}
    for k, home in enumerate(layout.get("fds") or []):
        out.setdefault("b%d" % home, set()).add("f%d" % k)
    return out


class BipSystem(object):
    def __init__(self, layout):
        lay = self.layout = norm_layout(layout)
        vclock.reset(float(lay["phase"]))
        self.wire = Wire()
        self.router = IPRouter()
        self.nets = {}
        self.nodes = {}
        self.order = []
        self.errors = []
        self.serial = 0
        self.muted = set()              # foreign devices whose Register-Foreign-Device datagrams are lost
        self.life = {}                  # fd id -> bbmdref.Lifetime
        self.fdt_replies = []           # (t, bbmd id, [(addr, ttl, remaining)])
        self.results = []               # (t, from, to, code) of every Result delivered
        self.lost = 0
        self.storm = False
        self.mark = {}                  # node id -> (len(up), len(app)) at the latest originate()

        subnets, bbmd_of = {}, {}
        for i, (has_bbmd, n_ord) in enumerate(lay["subnets"]):
            key = "s%d" % i
            net = self._net(key, "10.0.%d" % (i + 1))
            subnets[key] = []
            if has_bbmd:
                self._add("b%d" % i, "bbmd", "10.0.%d.2" % (i + 1), net, key)
                subnets[key].append("b%d" % i)
                bbmd_of[key] = "b%d" % i
            for k in range(n_ord):
                nid = "o%d%s" % (i, "ab"[k])
                self._add(nid, "ord", "10.0.%d.%d" % (i + 1, 3 + k), net, key)
                subnets[key].append(nid)
        fdnets = lay.get("fdnets") or list(range(len(lay["fds"])))
        fdwire = lay.get("fdwire") or [None] * len(lay["fds"])
        self.wire_of = {}               # fd id -> subnet key, for the devices that sit on a subnet of the B/IP network
        per_net = {}
        for k, home in enumerate(lay["fds"]):
            if fdwire[k] is not None:
                w = int(fdwire[k])
                key = "s%d" % w
                self._add("f%d" % k, "fd", "10.0.%d.%d" % (w + 1, 20 + k), self.nets[key], key)
                self.life["f%d" % k] = bbmdref.Lifetime()
                self.wire_of["f%d" % k] = key
                continue
            n = fdnets[k]
            key = "x%d" % n
            net = self.nets.get(key) or self._net(key, "10.1.%d" % (n + 1))
            host = 2 + per_net.get(n, 0)
            per_net[n] = per_net.get(n, 0) + 1
            self._add("f%d" % k, "fd", "10.1.%d.%d" % (n + 1, host), net, key)
            self.life["f%d" % k] = bbmdref.Lifetime()
        self.fd_home = {"f%d" % k: "b%d" % home for k, home in enumerate(lay["fds"])}

        # broadcast distribution tables
        bbmds = [n for n in self.order if self.nodes[n].kind == "bbmd"]
        self.bdt = {}
        for b in bbmds:
            i = int(b[1:])
            if lay["bdt"] == "full":
                peers = [p for p in bbmds if p != b]
            else:
                peers = ["b%d" % j for j in lay["bdt"].get(str(i), [])]
            self.bdt[b] = [b] + peers
            for p in self.bdt[b]:
                self.nodes[b].bip.add_peer(self._bdt_entry(p))
        self.topo = bbmdref.Topology(subnets, bbmd_of, self.bdt, [n for n in self.order if self.nodes[n].kind == "fd"],
                                     wire_of=self.wire_of, onehop=[b for b in bbmds if self.mask_of(b) != "host"])
        if self.topo.describe() != layout_topology(lay).describe():
            raise RuntimeError("bipsys: the system built differs from the description of layout %r" % (lay,))
        self.by_tuple = {n.tuple: n for n in self.nodes.values()}
        vclock.settle()

    # ---- construction
    def _net(self, key, prefix):
        net = CtlIPNetwork(self.wire, key)
        self.nets[key] = net
        self.router.add_network(Address("%s.1/24:%d" % (prefix, PORT)), net)
        return net

    def _add(self, nid, kind, ip, net, key):
        self.nodes[nid] = BipNode(nid, kind, ip, net, key, upper_of(self.layout, kind))
        self.order.append(nid)

    def mask_of(self, b):
        m = self.layout["mask"]
        if isinstance(m, dict):
            m = m.get(b[1:], "host")
        return m

    def _bdt_entry(self, b):
        return Address("%s/%d:%d" % (self.nodes[b].ip, 32 if self.mask_of(b) == "host" else 24, PORT))

    # ---- driving the environment
    def _observe(self, fr, lost=False):
        """Passive monitor: called for every datagram hop when it is delivered (or lost)."""
        node_src = self.by_tuple.get(fr.src)
        node_dst = self.by_tuple.get(fr.dst)
        try:
            m = bbmdref.parse_bvll(fr.data)
        except bbmdref.BvllError as err:
            self.errors.append("unparsable datagram on the wire: %s" % err)
            return
        now = vclock.clock.now
        fn = m["fn"]
        if fn == bbmdref.REGISTER_FD and node_src is not None and node_src.kind == "fd" and fr.net is node_src.net:
            # first hop of a registration request leaving a foreign device
            life = self.life[node_src.id]
            target = node_dst.id if node_dst is not None else str(fr.dst)
            life.reg_sent(now, target, m["ttl"])
            if lost:
                life.reg_lost(target)
        elif lost:
            return
        elif fn == bbmdref.RESULT and node_dst is not None and fr.net is node_dst.net:
            self.results.append((now, node_src.id if node_src else str(fr.src), node_dst.id, m["code"]))
            if node_dst.kind == "fd" and node_src is not None:
                life = self.life[node_dst.id]
                if m["code"] == 0:
                    life.acked(now, node_src.id)
                else:
                    life.nak(now, node_src.id)
        elif fn == bbmdref.READ_FDT_ACK and node_dst is not None and fr.net is node_dst.net:
            self.fdt_replies.append((now, node_src.id if node_src else str(fr.src), m["fdt"]))

    def _lose(self, fr):
        if not self.muted:
            return False
        node_src = self.by_tuple.get(fr.src)
        if node_src is None or node_src.id not in self.muted or fr.net is not node_src.net:
            return False
        return len(fr.data) > 1 and fr.data[1] == bbmdref.REGISTER_FD

    def step(self, j=0):
        """Deliver (or lose) in-flight datagram j, then run what became due at this instant."""
        fr = self.wire.inflight[j]
        if self._lose(fr):
            self.wire.drop(j)
            self.lost += 1
            self._observe(fr, lost=True)
        else:
            self.wire.deliver(j)
            self._observe(fr)
        vclock.settle()
        return fr

    def flush(self):
        """Perfect network: FIFO until nothing is in flight at this instant."""
        vclock.settle()
        n = 0
        while self.wire.inflight:
            self.step(0)
            n += 1
            if n > MAX_FLUSH:
                self.storm = True
                del self.wire.inflight[:]
                break
        return n

    def advance(self, dt):
        """Let virtual time pass: every timer fires at its own due time, the network stays perfect."""
        t_end = vclock.clock.now + dt
        self.flush()
        guard = 0
        while not self.storm:
            nd = vclock.next_due()
            if nd is None or nd > t_end:
                break
            vclock.advance_to(nd)
            self.flush()
            guard += 1
            if guard > 100000:
                raise vclock.Livelock("advance(%r) does not terminate" % dt)
        if t_end > vclock.clock.now:
            vclock.clock.now = t_end

    # ---- application-level actions
    def next_payload(self):
        self.serial += 1
        return npdu_payload(self.serial)

    def originate(self, nid, payload=None):
        """Hand a broadcast NPDU down to the B/IP layer of node nid (no delivery yet).  A node with the real network layer
        is given the Who-Is as an APDU for the global broadcast address; what its network layer then hands to the B/IP
        layer (seen by the tap) is the payload of this broadcast.  Returns the payload octets."""
        if payload is None:
            payload = self.next_payload()
        node = self.nodes[nid]
        self.mark = {n: (len(self.nodes[n].up), len(self.nodes[n].app)) for n in self.order}
        try:
            if node.upper == "nsap":
                apdu_octets = bbmdref.split_npdu(payload)["apdu"]
                if apdu_octets is None or len(apdu_octets) < 2 or apdu_octets[0] != 0x10:
                    raise RuntimeError("bipsys: payload is not an unconfirmed request")
                apdu = UnconfirmedRequestPDU(apdu_octets[1])
                apdu.put_data(apdu_octets[2:])
                apdu.pduDestination = GlobalBroadcast()
                n0 = len(node.down)
                node.rec.request(apdu)
                sent = [d for d in node.down[n0:]]
                if len(sent) == 1 and sent[0][1][0] == Address.localBroadcastAddr:
                    payload = sent[0][2]
                else:
                    self.errors.append("originate(%s): the network layer handed down %r" % (nid, [(d[1][0], d[2].hex()) for d in sent]))
            else:
                node.rec.request(PDU(payload, destination=LocalBroadcast()))
        except Exception as err:
            self.errors.append("originate(%s): %s: %s" % (nid, type(err).__name__, str(err)[:120]))
        vclock.settle()
        return payload

    def register(self, fd, ttl, bbmd=None):
        bbmd = bbmd or self.fd_home[fd]
        self.life[fd].app_register(vclock.clock.now, bbmd, ttl)
        try:
            self.nodes[fd].bip.register(self.nodes[bbmd].address, ttl)
        except Exception as err:
            self.errors.append("register(%s): %s: %s" % (fd, type(err).__name__, str(err)[:120]))
        self.flush()

    def unregister(self, fd):
        self.life[fd].app_unregister(vclock.clock.now)
        try:
            self.nodes[fd].bip.unregister()
        except Exception as err:
            self.errors.append("unregister(%s): %s: %s" % (fd, type(err).__name__, str(err)[:120]))
        self.flush()

    def delete_entry(self, manager, bbmd, fd):
        pdu = DeleteForeignDeviceTableEntry(Address(self.nodes[fd].tuple), destination=Address(self.nodes[bbmd].tuple))
        n0 = len(self.results)
        self.nodes[manager].ase.request(pdu)
        self.flush()
        self.life[fd].deleted(vclock.clock.now, bbmd)
        codes = [r[3] for r in self.results[n0:] if r[1] == bbmd and r[2] == manager]
        return codes[0] if codes else None

    def read_fdt(self, manager, bbmd):
        n0 = len(self.fdt_replies)
        self.nodes[manager].ase.request(ReadForeignDeviceTable(destination=Address(self.nodes[bbmd].tuple)))
        self.flush()
        replies = [r for r in self.fdt_replies[n0:] if r[1] == bbmd]
        return replies[0][2] if replies else None

    # ---- observation
    def copies(self, payload, since=0.0):
        """{node id: [(source, destination) of every copy of `payload` handed up]}"""
        out = {}
        for nid in self.order:
            got = [(src, dst) for (t, src, dst, data) in self.nodes[nid].up if data == payload and t >= since]
            out[nid] = got
        return out

    def handed_up(self, nid):
        """everything the B/IP layer of nid handed up since the latest originate(): [(t, source, destination, octets)]"""
        return self.nodes[nid].up[self.mark.get(nid, (0, 0))[0]:]

    def app_delivered(self, nid):
        """nsap nodes: everything the network layer delivered to the application recorder since the latest originate()"""
        return self.nodes[nid].app[self.mark.get(nid, (0, 0))[1]:]

    def fdt_served(self, t=None, cls="must"):
        """{bbmd: set(fd)} of the foreign devices the lifetime reference puts in class `cls` right now"""
        t = vclock.clock.now if t is None else t
        out = {}
        for fd, life in self.life.items():
            if life.served(t) == cls:
                out.setdefault(life.bbmd, set()).add(fd)
        return out

    def canon_state(self):
        now = vclock.clock.now
        memo = {}
        per = []
        for nid in self.order:
            n = self.nodes[nid]
            if n.kind == "ord":
                continue            # BIPSimple has no state
            per.append((nid, canon(n.bip, now, memo)))
        lives = tuple((fd, self.life[fd].canon(now)) for fd in sorted(self.life))
        tasks = tuple((round(when - now, 6), type(t).__name__) for (when, n, t) in vclock.pending_tasks())
        fl = tuple(f.key() for f in self.wire.inflight)
        return (tuple(per), lives, tasks, tuple(sorted(self.muted)), round(now % 1.0, 6), fl, self.storm)

    def swallowed(self):
        return list(vclock.swallowed) + [("wire", e) for e in self.wire.errors] + [("driver", e) for e in self.errors]
