"""The closed S-APP system explored for C04 / C05 / C11 / C12: real application stacks + environment menu.

An execution is a list of choice indexes into `menu()`.  Index 0 is always the default environment
answer (deliver the oldest frame; else let the server application answer; else fire the earliest timer).
"""
import bv  # noqa: F401
from bacpypes import core as _core
from bacpypes.app import DeviceInfo
from bacpypes.pdu import Address

from bv.engine import vclock
from bv.engine.ctlnet import Wire, CtlNetwork
from bv.engine.canon import canon
from bv.engine.acc import h64
from bv.refs import ssmwire
from bv.stacks import app as A

DEFAULTS = dict(seg="segmentedBoth", maxapdu=50, maxsegs=64, retries=1, window=2,
                apdu_timeout=3000, seg_timeout=2000, app_timeout=3000)


BACKGROUND_AT = 3600.0


def side(**kw):
    d = dict(DEFAULTS)
    d.update(kw)
    return d


class Cfg(object):
    """Configuration of one system: client side, server side(s), requests."""

    def __init__(self, c=None, s=None, reqs=None, answer="now", via="plain", resp_kind="ack", peerinfo=False,
                 reorder=1, dupcap=1, label=None, views=None, reannounce=None, sidetalk=False, background=False, straggler=False):
        self.c = side(**(c or {}))
        self.s = side(**(s or {}))
        self.reqs = list(reqs or [(0, 0)])      # (request payload length, response payload length) per request
        self.answer = answer                    # now | hold | never
        self.via = via                          # plain | iocb
        self.resp_kind = resp_kind
        self.peerinfo = peerinfo
        self.reorder = reorder                  # how many younger frames may overtake the oldest
        self.dupcap = dupcap
        self.label = label
        # what each side believes about the other when that differs from the truth (stale record / stale I-Am):
        # {"c_of_s": {...side overrides...}, "s_of_c": {...}}
        self.views = views or {}
        # the server changes its capabilities and re-announces them at an explorer-chosen point: {...side overrides...}
        self.reannounce = reannounce
        # the client application also sends an unconfirmed request of its own straight to the server (app.request, no
        # IOCB) at an explorer-chosen point while its confirmed requests are under way
        self.sidetalk = sidetalk
        # the process also has a far-away timer of its own (installed before the requests are submitted), as every real
        # application has (hourly housekeeping): the task heap then holds more than the transactions' timers
        self.background = background
        # one frame of an exchange that is already over arrives once more, at any point of a later exchange (a copy that
        # took another path through the network)
        self.straggler = straggler

    def key(self):
        return (tuple(sorted(self.c.items())), tuple(sorted(self.s.items())), tuple(self.reqs), self.answer, self.via,
                self.resp_kind, self.peerinfo, self.reorder, self.dupcap, repr(sorted(self.views.items())),
                repr(self.reannounce), self.sidetalk, self.background, self.straggler)

    def describe(self):
        def short(d):
            return {k: v for k, v in d.items() if DEFAULTS.get(k) != v}
        return {"client": short(self.c), "server": short(self.s), "reqs": self.reqs, "answer": self.answer,
                "via": self.via, "resp_kind": self.resp_kind, "peerinfo": self.peerinfo, "views": self.views,
                "reannounce": self.reannounce, "sidetalk": self.sidetalk, "background": self.background, "straggler": self.straggler}

    def to_json(self):
        return {"c": self.c, "s": self.s, "reqs": [list(r) for r in self.reqs], "answer": self.answer, "via": self.via,
                "resp_kind": self.resp_kind, "peerinfo": self.peerinfo, "reorder": self.reorder, "dupcap": self.dupcap,
                "label": self.label, "views": self.views, "reannounce": self.reannounce, "sidetalk": self.sidetalk, "background": self.background, "straggler": self.straggler}

    @classmethod
    def from_json(cls, d):
        return cls(c=d["c"], s=d["s"], reqs=[tuple(r) for r in d["reqs"]], answer=d["answer"], via=d["via"],
                   resp_kind=d["resp_kind"], peerinfo=d["peerinfo"], reorder=d.get("reorder", 1),
                   dupcap=d.get("dupcap", 1), label=d.get("label"), views=d.get("views"), reannounce=d.get("reannounce"),
                   sidetalk=d.get("sidetalk", False), background=d.get("background", False),
                   straggler=d.get("straggler", False))


def _device(name, ident, sd):
    return A.make_device(name, ident, maxApduLengthAccepted=sd["maxapdu"], segmentationSupported=sd["seg"],
                         maxSegmentsAccepted=sd["maxsegs"], numberOfApduRetries=sd["retries"],
                         apduTimeout=sd["apdu_timeout"], apduSegmentTimeout=sd["seg_timeout"])


def _info_for(sd, ident, addr):
    info = DeviceInfo(ident, addr)
    info.maxApduLengthAccepted = sd["maxapdu"]
    info.segmentationSupported = sd["seg"]
    info.maxSegmentsAccepted = sd["maxsegs"]
    info.maxNpduLength = sd.get("maxnpdu")      # what the path carries, when the application has filled it in (19.4)
    info.vendorID = 999
    return info


def prime_cache(app, info):
    cache = getattr(app, "callers_cache", app.deviceInfoCache)       # the program's own reference to the cache it supplied
    cache.cache[info.deviceIdentifier] = info
    cache.cache[info.address] = info
    cache.update_device_info(info)


class AppSystem(object):
    CLIENT_MAC = 1
    SERVER_MAC = 2

    def __init__(self, cfg):
        self.cfg = cfg
        vclock.reset(0.0)
        self.events = []        # ("emit"| "conf" | "ind", ...) in causal order
        self.wire = Wire()
        self.net = CtlNetwork(self.wire, "lan")
        cls = A.IOApp if cfg.via in ("iocb", "iocb-chain") else A.PlainApp
        self.client = cls(_device("client", 1, cfg.c), self.CLIENT_MAC, self.net, window=cfg.c["window"],
                          app_timeout=cfg.c["app_timeout"], events=self.events)
        self.server = A.PlainApp(_device("server", 2, cfg.s), self.SERVER_MAC, self.net, window=cfg.s["window"],
                                 app_timeout=cfg.s["app_timeout"], events=self.events)
        self.server.answer_mode = cfg.answer
        self.server.resp_kind = cfg.resp_kind
        self.reannounced = False
        self.sidetalked = False
        self.straggled = False
        self.wire.keep_delivered = bool(cfg.straggler)
        self._old_frames = 0        # how many delivered frames belong to exchanges that are over
        if cfg.peerinfo in (True, "record"):
            c_of_s = dict(cfg.s)
            c_of_s.update(cfg.views.get("c_of_s", {}))
            s_of_c = dict(cfg.c)
            s_of_c.update(cfg.views.get("s_of_c", {}))
            prime_cache(self.client, _info_for(c_of_s, 2, Address(self.SERVER_MAC)))
            prime_cache(self.server, _info_for(s_of_c, 1, Address(self.CLIENT_MAC)))
            self.events.append(("told", 0.0, str(self.SERVER_MAC), c_of_s["maxapdu"], c_of_s["seg"], c_of_s["maxsegs"]))
        self._hook_records()
        self._submitted = []    # (service number, request)
        self.steps = 0
        self.trace = []         # labels of the choices taken
        self.faults = []        # (fault kind, class of the frame(s) hit) for failure signatures
        self.errors = []        # exceptions escaping into the driver (mirrors of what core.run would log)

    def _hook_records(self):
        ev = self.events
        client = self.client
        orig = client._record_confirmation

        def rec(apdu, via):
            orig(apdu, via)
            ev.append(("conf",) + client.confirmations[-1])
            self._old_frames = len(self.wire.delivered)
        client._record_confirmation = rec

    @property
    def submitted(self):
        """(service number, request) of everything submitted so far, including requests the application submitted
        from inside a completion callback"""
        return self._submitted + [(r.serviceNumber, r) for r in getattr(self.client, "chain_submitted", [])]

    # ---- driving
    def announce(self):
        """Both devices broadcast an I-Am; the applications hand it to their DeviceInfoCache as the samples do."""
        from bacpypes.apdu import IAmRequest
        from bacpypes.pdu import LocalBroadcast
        for app, sd, view in ((self.server, self.cfg.s, "c_of_s"), (self.client, self.cfg.c, "s_of_c")):
            sd = dict(sd)
            sd.update(self.cfg.views.get(view, {}))
            self._send_iam(app, sd)
        self.announced = True

    def _send_iam(self, app, sd):
        from bacpypes.apdu import IAmRequest
        from bacpypes.pdu import LocalBroadcast
        if True:
            iam = IAmRequest(iAmDeviceIdentifier=app.localDevice.objectIdentifier, maxAPDULengthAccepted=sd["maxapdu"],
                             segmentationSupported=sd["seg"], vendorID=999)
            iam.pduDestination = LocalBroadcast()
            try:
                if self.cfg.via == "iocb" and app is self.client:
                    from bacpypes.app import Application
                    Application.request(app, iam)
                else:
                    app.request(iam)
            except Exception as err:
                self.errors.append("iam:%s:%s" % (type(err).__name__, str(err)[:100]))
            vclock.settle()
            # only the I-Am itself is delivered here (it is the newest frame); other traffic stays in flight
            for i in range(len(self.wire.inflight) - 1, -1, -1):
                fr = self.wire.inflight[i]
                if fr.data[2:4] == bytes([0x10, 0x00]):
                    self.wire.deliver(i)
                    vclock.settle()
                    break
            if app is self.server:
                self.events.append(("told", vclock.clock.now, str(self.SERVER_MAC), sd["maxapdu"], sd["seg"], None))

    def start(self):
        vclock.settle()
        if self.cfg.peerinfo == "iam":
            self.announce()
        if self.cfg.background:
            from bacpypes.task import OneShotFunction
            self.background_task = OneShotFunction(lambda: None)
            self.background_task.suspend_task()
            self.background_task.install_task(when=BACKGROUND_AT)
        for k, (req_len, resp_len) in enumerate(self.cfg.reqs):
            sn = k + 1
            self.server.resp_len_by_sn[sn] = resp_len
            if self.cfg.via == "iocb-chain" and k > 0:
                # submitted later, synchronously from the completion callback of the previous request
                self.client.chain.append((Address(self.SERVER_MAC), req_len, sn))
                continue
            try:
                req = self.client.submit(Address(self.SERVER_MAC), req_len, service_number=sn)
                self._submitted.append((sn, req))
            except Exception as err:
                self.errors.append("submit:%s:%s" % (type(err).__name__, str(err)[:100]))
        self._settle()

    def _settle(self):
        try:
            vclock.settle()
        except vclock.Livelock as err:
            self.errors.append("livelock:%s" % err)
            raise
        # at rest in this instant: a transaction that has delivered its outcome (state COMPLETED / ABORTED) holds no timer
        for (when, n, t) in vclock.pending_tasks():
            if getattr(t, "state", None) in (6, 7) and type(t).__name__ in ("ClientSSM", "ServerSSM"):
                stale = getattr(self, "stale_timers", None)
                if stale is None:
                    stale = self.stale_timers = []
                if len(stale) < 4:
                    stale.append((round(vclock.clock.now, 6), type(t).__name__, "COMPLETED" if t.state == 6 else "ABORTED", round(when, 6)))

    def menu(self):
        m = []
        fl = self.wire.inflight
        held = self.server.held if self.cfg.answer == "hold" else []
        nd = vclock.next_due()
        if self.cfg.background and nd is not None:
            pend = vclock.pending_tasks()
            if len(pend) == 1 and pend[0][2] is getattr(self, "background_task", None):
                nd = None       # only the application's own far-away timer is left: the system is quiescent
        extra = []
        if self.cfg.reannounce and not self.reannounced and (fl or nd is not None):
            extra.append(("reannounce", 1))
        if self.cfg.sidetalk and not self.sidetalked and (fl or nd is not None):
            extra.append(("sidetalk", 1))
        if self.cfg.straggler and not self.straggled and self._old_frames and (fl or held or nd is not None) \
                and len(self.client.confirmations) < len(self.cfg.reqs):
            seen = set()
            for k in range(self._old_frames):
                key = self.wire.delivered[k].key()
                if key not in seen:
                    seen.add(key)
                    extra.append(("stale%d" % k, 1))
        if fl:
            m.append(("deliver0", 0))
            m.append(("drop0", 1))
            if fl[0].copies < self.cfg.dupcap:
                m.append(("dup0", 1))
            for j in range(1, min(len(fl) - 1, self.cfg.reorder) + 1):
                m.append(("deliver%d" % j, 1))
            if nd is not None:
                m.append(("timer", 1))
            if held:
                m.append(("answer0", 1))
        elif held:
            m.append(("answer0", 0))
            if nd is not None:
                m.append(("timer", 1))
        elif nd is not None:
            m.append(("timer", 0))
        return m + extra if m else m

    def apply(self, label):
        self.steps += 1
        self.trace.append(label)
        w = self.wire
        if label.startswith("deliver"):
            j = int(label[7:])
            fr = w.inflight[j]
            if j:
                self.faults.append(("overtake", frame_label(fr.data), frame_label(w.inflight[0].data)))
            self.events.append(("dlv", vclock.clock.now, str(fr.dst), str(fr.src), fr.data))
            w.deliver(j)
        elif label == "drop0":
            fr = w.drop(0)
            self.faults.append(("drop", frame_label(fr.data)))
        elif label == "dup0":
            fr = w.inflight[0]
            self.faults.append(("dup", frame_label(fr.data)))
            self.events.append(("dlv", vclock.clock.now, str(fr.dst), str(fr.src), fr.data))
            w.deliver(0, keep=True)
        elif label == "timer":
            if w.inflight:
                self.faults.append(("late",) + tuple(frame_label(f.data) for f in w.inflight[:3]))
            nd = vclock.next_due()
            if nd is not None and nd > vclock.clock.now:
                vclock.clock.now = nd
            _core.run_once()
        elif label == "reannounce":
            # the server device is reconfigured (e.g. restarted with a smaller buffer) and says so
            self.reannounced = True
            sd = dict(self.cfg.s)
            sd.update(self.cfg.reannounce)
            dev = self.server.localDevice
            dev.maxApduLengthAccepted = sd["maxapdu"]
            dev.segmentationSupported = sd["seg"]
            self._send_iam(self.server, sd)
        elif label.startswith("stale"):
            fr = w.delivered[int(label[5:])]
            self.straggled = True
            self.faults.append(("stale", frame_label(fr.data)))
            self.events.append(("dlv", vclock.clock.now, str(fr.dst), str(fr.src), fr.data))
            w._deliver(fr)
        elif label == "sidetalk":
            # an unconfirmed request of the client application's own to the same peer, through the application's
            # documented entry point for unconfirmed requests; delivered at once (it is not what is being explored)
            from bacpypes.apdu import UnconfirmedPrivateTransferRequest
            self.sidetalked = True
            req = UnconfirmedPrivateTransferRequest(vendorID=999, serviceNumber=77)
            req.pduDestination = self.server.address
            try:
                self.client.request(req)
            except Exception as err:
                self.errors.append("sidetalk:%s:%s" % (type(err).__name__, str(err)[:100]))
            vclock.settle()
            for i in range(len(w.inflight) - 1, -1, -1):
                if w.inflight[i].data[2:4] == bytes([0x10, 0x04]):
                    w.deliver(i)
                    break
        elif label.startswith("answer"):
            try:
                self.server.answer(int(label[6:]))
            except Exception as err:
                self.errors.append("answer:%s:%s" % (type(err).__name__, str(err)[:100]))
        else:
            raise ValueError(label)
        self._settle()

    # ---- observation
    def canon_state(self):
        now = vclock.clock.now
        memo = {}
        apps = []
        for app in (self.client, self.server):
            apps.append((
                canon(app.smap.clientTransactions, now, memo), canon(app.smap.serverTransactions, now, memo),
                app.smap.nextInvokeID,
                tuple((c[1], c[3], c[4]) for c in app.confirmations),
                tuple((i[2], i[3], i[4]) for i in app.indications),
                tuple((h.apduInvokeID, h.serviceNumber) for h in app.held),
                canon(getattr(app, "queue_by_address", None), now, memo),
            ))
        fl = tuple((f.key(), f.copies) for f in self.wire.inflight)
        tasks = tuple((round(when - now, 6), type(t).__name__) for (when, n, t) in vclock.pending_tasks()
                      if t is not getattr(self, "background_task", None))
        return (tuple(apps), fl, tasks, round(now, 6))

    def wire_frames(self):
        """Decoded view of every frame put on the LAN: list of dict(t, src, dst, n(pdu), a(pdu))"""
        out = []
        for (t, net, src, dst, data) in self.wire.log:
            try:
                n, a = ssmwire.parse_frame(data)
            except ssmwire.WireError as err:
                n, a = {"error": str(err)}, None
            out.append({"t": t, "src": src, "dst": dst, "n": n, "a": a, "len": len(data)})
        return out

    def swallowed(self):
        return list(vclock.swallowed) + [("wire", e) for e in self.wire.errors] + [("driver", e) for e in self.errors]


def frame_label(data):
    """Short class label of a frame for failure signatures (independent parser)."""
    try:
        n, a = ssmwire.parse_frame(data)
    except ssmwire.WireError:
        return "unparsable"
    if a is None:
        return "netmsg%s" % n.get("netmsg")
    name = a["name"]
    if a["type"] in (0, 3) and a["seg"]:
        pos = "seg0" if a["seq"] == 0 else ("seglast" if not a["mor"] else "segmid")
        return "%s.%s" % (name, pos)
    if a["type"] == 4:
        return "SegmentAck.%s%s" % ("srv" if a["srv"] else "cli", ".nak" if a["nak"] else "")
    return name


def run_execution(cfg, choices, max_steps=400, want_states=None):
    """Replay `choices` (indexes into the menu) then take 0 until done.

    Returns (system, points) where points[i] = (menu at point i, index chosen).  A choice index outside
    the menu while replaying the prefix is a harness error (non-determinism)."""
    from bv.engine.pool import HarnessError
    sysm = AppSystem(cfg)
    points = []
    try:
        sysm.start()
        i = 0
        while True:
            m = sysm.menu()
            if not m:
                break
            if i < len(choices):
                idx = choices[i]
                if idx >= len(m):
                    raise HarnessError("replay diverged at point %d: choice %d not in menu %r (cfg %r)" % (i, idx, m, cfg.describe()))
            else:
                idx = 0
            points.append((m, idx))
            sysm.apply(m[idx][0])
            if want_states is not None:
                want_states.add(h64(sysm.canon_state()))
            i += 1
            if i >= max_steps:
                sysm.horizon_hit = True
                break
    except vclock.Livelock:
        sysm.horizon_hit = True
        sysm.livelock = True
    return sysm, points
