"""S-NET: an internetwork of real network layers built from a topology description.

* every BACnet network is a controlled vlan (`bv.engine.ctlnet.CtlNetwork`) on one shared `Wire`: frames are
  parked, the driver decides which LAN delivers next;
* a station is `vlan.Node` <- `NetworkServiceAccessPoint` (+ `NetworkServiceElement`) <- `Upper`, a recording
  layer bound above the NSAP that logs every PDU handed up (source, destination, octets) and can answer a
  request with a reply addressed to exactly the source address it was shown;
* a router is one NSAP (+ NSE) bound to 2..4 LANs with network numbers; startup announcements can be kept
  (warm caches, learned through the real I-Am-Router-To-Network handling) or suppressed (cold caches);
  routing tables can also be written directly (cyclic topologies, where announcements circulate for ever);
* a router may carry an application (topology key "apps"): the same recording `Upper` is bound above its NSAP,
  the home port is bound last so that it is the NSAP's local adapter; that application is a station (numbered
  after the plain ones);
* routers may come up late (cache 'late'/'lcall'/'lask'): the first requests are handed down while no router
  is attached to any LAN, then all routers are created and announce themselves with the library's own code
  (NetworkServiceElement.startup() / i_am_router_to_network() / answers to a Who-Is-Router-To-Network without
  a network number), then the later requests are handed down.

Topology: see bv.refs.fwdref (json-able dict).  Nothing here judges anything.
"""
import bv  # noqa: F401
from bacpypes.comm import Client, bind
from bacpypes.pdu import Address, LocalStation, RemoteStation, LocalBroadcast, RemoteBroadcast, GlobalBroadcast, PDU
from bacpypes.apdu import UnconfirmedRequestPDU
from bacpypes.vlan import Node
from bacpypes.netservice import NetworkServiceAccessPoint, NetworkServiceElement, RouterInfoCache
from bacpypes.npdu import WhoIsRouterToNetwork

from bv.engine import vclock
from bv.engine.ctlnet import Wire, CtlNetwork
from bv.engine.acc import h64
from bv.refs import ssmwire

ADDR_KIND = {Address.nullAddr: "null", Address.localBroadcastAddr: "lb", Address.localStationAddr: "ls",
             Address.remoteBroadcastAddr: "rb", Address.remoteStationAddr: "rs", Address.globalBroadcastAddr: "gb"}

REQ_SERVICE = 8         # Who-Is service choice: any unconfirmed service will do, the octets are opaque here
RPL_SERVICE = 0


class QuietNSE(NetworkServiceElement):
    """Network service element that does not announce itself at startup (as tests/test_network does)."""
    _startup_disabled = True


class RecordingCache(RouterInfoCache):
    """Routing table that logs what it is told (used once per configuration to learn what the real startup
    announcements teach every node, so that later executions can start from the same tables directly)."""

    def __init__(self):
        RouterInfoCache.__init__(self)
        self.calls = []

    def update_router_info(self, snet, address, dnets, *args, **kwargs):
        self.calls.append((snet, bytes(address.addrAddr), tuple(dnets)))
        return RouterInfoCache.update_router_info(self, snet, address, dnets, *args, **kwargs)


def addr_tuple(a):
    """(kind, network or None, MAC octets or None) of an Address, read from its plain attributes."""
    if a is None:
        return None
    return (ADDR_KIND.get(a.addrType, "type%r" % (a.addrType,)), a.addrNet, bytes(a.addrAddr) if a.addrAddr is not None else None)


class Upper(Client):
    """The layer above a station's network layer."""

    def __init__(self, sysm, index):
        Client.__init__(self)
        self.sysm = sysm
        self.index = index

    def confirmation(self, apdu):
        s = self.sysm
        data = bytes(apdu.pduData)
        rec = (self.index, addr_tuple(apdu.pduSource), addr_tuple(apdu.pduDestination),
               getattr(apdu, "apduType", None), getattr(apdu, "apduService", None), data)
        s.deliveries.append(rec)
        s.delivered_by.append(s.current)
        if s.reply == "now" and data.startswith(b"REQ"):
            self.answer(apdu.pduSource, data)
        elif s.reply == "first" and data.startswith(b"REQ"):
            # cyclic topologies hand the same broadcast up many times: answer the first copy only
            if (self.index, data) not in s.answered:
                s.answered.add((self.index, data))
                self.answer(apdu.pduSource, data)
        elif s.reply == "late" and data.startswith(b"REQ"):
            s.owed.append((self.index, apdu.pduSource, data))

    def answer(self, shown_source, req_data):
        self.send(RPL_SERVICE, b"RPL" + bytes([self.index]) + req_data[3:], shown_source)

    def send(self, service, data, destination):
        pdu = UnconfirmedRequestPDU(service)
        pdu.put_data(data)
        pdu.pduDestination = destination
        try:
            self.request(pdu)
        except Exception as err:       # an application would see this exception; the run goes on
            self.sysm.errors.append("send@%d:%s:%s" % (self.index, type(err).__name__, str(err)[:120]))


class Station(object):
    def __init__(self, sysm, index, lan, netnum, mac, know, record=False):
        self.index = index
        self.mac = mac
        self.address = Address(mac)
        self.node = Node(self.address, lan)
        self.nsap = NetworkServiceAccessPoint(router_info_cache=RecordingCache() if record else None)
        self.nse = NetworkServiceElement()
        bind(self.nse, self.nsap)
        self.upper = Upper(sysm, index)
        bind(self.upper, self.nsap)
        self.know = know
        if know == "net":           # configured network number
            self.nsap.bind(self.node, netnum, self.address)
        elif know == "addr":        # the applications of app.py: address only
            self.nsap.bind(self.node, address=self.address)
        elif know == "bare":        # tests/test_network/helpers.py: nothing
            self.nsap.bind(self.node)
        else:
            raise ValueError(know)
        self.adapter = self.nsap.local_adapter


class Router(object):
    def __init__(self, index, ports, lans, netnums, announce, record=False, sysm=None, home=None, station_index=None):
        """home: position of the port the router's application lives on (None: a pure router); that port is
        bound last, NetworkServiceAccessPoint.bind() makes the last port bound with an address the local one."""
        self.index = index
        self.nsap = NetworkServiceAccessPoint(router_info_cache=RecordingCache() if record else None)
        self.nse = (NetworkServiceElement if announce else QuietNSE)()
        bind(self.nse, self.nsap)
        self.nodes = []
        self.upper = None
        order = list(ports)
        if home is not None:
            order = [p for i, p in enumerate(ports) if i != home] + [ports[home]]
            self.upper = Upper(sysm, station_index)
            bind(self.upper, self.nsap)
        for (ni, mac) in order:
            addr = Address(mac)
            node = Node(addr, lans[ni])
            self.nsap.bind(node, netnums[ni], addr)
            self.nodes.append(node)
        self.adapter = self.nsap.local_adapter


def know_of(mode, k):
    """Per-station binding form for a population mode."""
    if mode == "K":
        return "net"
    if mode == "U":
        return "addr"
    if mode == "B":
        return "bare"
    if mode == "M0":
        return "net" if k % 2 == 0 else "addr"
    if mode == "M1":
        return "addr" if k % 2 == 0 else "net"
    raise ValueError(mode)


class NetSystem(object):
    """cache: 'cold'   no announcements, empty tables (discovery by Who-Is-Router / I-Am-Router);
              'warm'   routers announce at startup, everything delivered FIFO before the scenario starts;
              'rwarm'  as warm, then the stations' tables are emptied (stations that joined later);
              'rcold'  as warm, then the routers' tables are emptied (routers restarted);
              'nwarm'  as warm, then every router announces Network-Number-Is on its ports (real frames): stations that
                       did not know their network number learn it *after* they learned their routes;
              'preset' no announcements, shortest-path tables written directly (cyclic topologies);
              'late'   no router is attached while the first wave of requests is handed down (path queries go
                       unanswered, the packets wait); then all routers are created and run the library's start-up
                       announcement (real frames, delivery order is the explorer's); when that has come to rest
                       the second wave is handed down;
              'lcall'  as late, the routers come up silently and then each calls i_am_router_to_network();
              'lask'   as late, the routers come up silently and then every station that sent in the first wave
                       broadcasts a Who-Is-Router-To-Network without a network number."""
    LATE = ("late", "lcall", "lask")

    def __init__(self, topo, cache="warm", know="K", reply="now", tables=None, learned=None, record=False, lossy=None):
        """lossy: None (every frame put on a LAN is delivered) or the cost of choosing another LAN than the one with
        the globally oldest frame; then the environment may also *lose* an I-Am-Router-To-Network frame (cost 1)."""
        vclock.reset(0.0)
        self.topo = topo
        self.cache = cache
        self.know = know
        self.reply = reply
        self.wire = Wire()
        self.netnums = list(topo["nets"])
        self.lans = [CtlNetwork(self.wire, "n%d" % i) for i in range(len(self.netnums))]
        self.lan_index = {lan.name: i for i, lan in enumerate(self.lans)}
        self.deliveries = []        # (station, source shown, destination shown, apdu type, service, octets)
        self.delivered_by = []      # serial of the frame whose delivery handed it up
        self.owed = []              # late replies not yet sent
        self.answered = set()
        self.errors = []
        self.parent = {}            # frame serial -> serial of the frame whose delivery caused it (None: driver)
        self.order = []             # serials in the order they were delivered
        self.current = None
        self.trace = []
        self.horizon_hit = False
        self.livelock = False
        self.lossy = lossy
        self.dropped = []           # serials of the frames the environment lost
        # learned: what RecordingCache logged in an announced run of this very configuration; given that, the
        # announcements are not repeated and the tables are filled by the same calls in the same order
        self.learned = learned
        announce = cache in ("warm", "rwarm", "rcold", "nwarm") and learned is None
        self.announced = announce
        self.stations = [Station(self, k, self.lans[ni], self.netnums[ni], mac, know_of(know, k), record)
                         for k, (ni, mac) in enumerate(topo["stations"])]
        self.record = record
        # (network index, MAC) of every application: the plain stations, then the routers' applications
        self.places = [tuple(p) for p in topo["stations"]] + [tuple(r[h]) for r, h in zip(topo["routers"], topo.get("apps") or [])
                                                              if h is not None]
        self.routers = []
        self.endpoints = list(self.stations)        # whatever has an application: .upper, .adapter, .nsap
        self.phases = []            # what happens each time the network has come to rest (late modes)
        if cache not in self.LATE:
            self._build_routers(announce)
        self.warm_frames = 0
        self.tables = tables

    def _build_routers(self, announce):
        apps = self.topo.get("apps") or [None] * len(self.topo["routers"])
        k = len(self.stations)
        for j, ports in enumerate(self.topo["routers"]):
            rt = Router(j, ports, self.lans, self.netnums, announce, self.record, self, apps[j], k if apps[j] is not None else None)
            self.routers.append(rt)
            if apps[j] is not None:
                self.endpoints.append(rt)
                k += 1

    # ---- preparation
    def start(self):
        vclock.settle()
        if self.cache in ("warm", "rwarm", "rcold", "nwarm"):
            if self.announced:
                self.wire.flush(max_frames=5000)
            else:
                for node, calls in zip(self.stations + self.routers, self.learned):
                    for (snet, mac, dnets) in calls:
                        node.nsap.router_info_cache.update_router_info(snet, LocalStation(mac), list(dnets))
            if self.cache == "rwarm":
                for st in self.stations:
                    st.nsap.router_info_cache = type(st.nsap.router_info_cache)()
            if self.cache == "rcold":
                for rt in self.routers:
                    rt.nsap.router_info_cache = type(rt.nsap.router_info_cache)()
            if self.cache == "nwarm":
                for rt in self.routers:
                    try:
                        rt.nse.network_number_is()
                    except Exception as err:
                        self.errors.append("network_number_is: %s: %s" % (type(err).__name__, str(err)[:100]))
                    vclock.settle()
                    self.wire.flush(max_frames=5000)
        elif self.cache == "preset":
            rt, st = self.tables
            for j, rows in enumerate(rt):
                for (ni, mac, tn) in rows:
                    self.routers[j].nsap.router_info_cache.update_router_info(self.netnums[ni], Address(mac), [self.netnums[tn]])
            for k, rows in enumerate(st):
                s = self.stations[k]
                for (mac, tn) in rows:
                    s.nsap.router_info_cache.update_router_info(s.adapter.adapterNet, Address(mac), [self.netnums[tn]])
        if self.wire.inflight:
            raise RuntimeError("frames in flight after preparation")
        self.warm_frames = len(self.wire.log)
        for s in range(1, self.wire.serial + 1):
            self.parent[s] = None

    # ---- traffic
    def destination(self, src, dest):
        kind = dest[0]
        if kind == "u":
            ni, mac = self.places[dest[1]]
            return LocalStation(mac) if dest[2] == "local" else RemoteStation(self.netnums[ni], mac)
        if kind == "ua":
            return LocalStation(dest[2]) if dest[3] == "local" else RemoteStation(self.netnums[dest[1]], dest[2])
        if kind == "lb":
            return LocalBroadcast()
        if kind == "rb":
            return RemoteBroadcast(self.netnums[dest[1]])
        if kind == "gb":
            return GlobalBroadcast()
        if kind == "xn":
            return RemoteBroadcast(dest[1])
        raise ValueError(dest)

    def send(self, src, dest, payload):
        """Station src hands a request for `dest` to its network layer."""
        self._mark()
        self.current = None
        self.endpoints[src].upper.send(REQ_SERVICE, payload, self.destination(src, dest))
        self._after(None)

    def routers_up(self, askers=()):
        """Late modes: every router is created now and attached to its LANs."""
        self._mark()
        self.current = None
        self._build_routers(self.cache == "late")
        self._after(None)
        if self.cache == "lcall":
            for rt in self.routers:
                self._mark()
                try:
                    rt.nse.i_am_router_to_network()
                except Exception as err:
                    self.errors.append("i_am_router_to_network: %s: %s" % (type(err).__name__, str(err)[:100]))
                self._after(None)
        elif self.cache == "lask":
            for k in askers:
                ep = self.endpoints[k]
                self._mark()
                ask = WhoIsRouterToNetwork()
                ask.pduDestination = LocalBroadcast()
                try:
                    ep.nse.request(ep.adapter, ask)
                except Exception as err:
                    self.errors.append("who_is_router: %s: %s" % (type(err).__name__, str(err)[:100]))
                self._after(None)

    def inject(self, src, octets, mac_dst):
        """Station src's LAN port emits crafted NPDU octets (mac_dst None = broadcast)."""
        self._mark()
        self.current = None
        pdu = PDU(octets, destination=LocalBroadcast() if mac_dst is None else LocalStation(mac_dst))
        self.endpoints[src].adapter.request(pdu)
        self._after(None)

    def pay_owed(self):
        """Late replies: every recipient of a request answers now, in order of reception."""
        owed, self.owed = self.owed, []
        for (k, shown, data) in owed:
            self._mark()
            self.current = None
            self.endpoints[k].upper.answer(shown, data)
            self._after(None)
        return len(owed)

    def _mark(self):
        self._before = self.wire.serial

    def _after(self, cause):
        try:
            vclock.settle()
        except vclock.Livelock:
            self.livelock = True
        for s in range(self._before + 1, self.wire.serial + 1):
            self.parent[s] = cause

    # ---- environment decisions
    def menu(self):
        """Oldest in-flight frame of every LAN, globally oldest first (cost 0), the others cost 1: a LAN keeps
        the order of its own frames, which LAN delivers next is the environment's choice."""
        seen = set()
        m = []
        for i, fr in enumerate(self.wire.inflight):
            if fr.net.name in seen:
                continue
            seen.add(fr.net.name)
            m.append(("dlv:%s" % fr.net.name, 0 if not m else (1 if self.lossy is None else self.lossy)))
        if self.lossy is not None and m and self._is_iam_router(self.wire.inflight[0]):
            # a lossy environment: the announcement never arrives (nobody repeats it).  Offered when the frame is the
            # globally oldest one: every frame is that at some time unless it was delivered ahead of its turn, and
            # when a frame is lost makes no difference to anybody
            m.append(("drop:%s" % self.wire.inflight[0].net.name, 1))
        return m

    @staticmethod
    def _is_iam_router(fr):
        try:
            return ssmwire.parse_npdu(fr.data).get("netmsg") == 1
        except ssmwire.WireError:
            return False

    def apply(self, label):
        name = label[5:] if label.startswith("drop:") else label[4:]
        for i, fr in enumerate(self.wire.inflight):
            if fr.net.name == name:
                break
        else:
            raise ValueError(label)
        self.trace.append(label)
        if label.startswith("drop:"):
            self.wire.drop(i)
            self.dropped.append(fr.serial)
            return
        self._mark()
        self.current = fr.serial
        self.order.append(fr.serial)
        self.wire.deliver(i)
        self._after(fr.serial)
        self.current = None

    # ---- observation
    def frames(self, start=None):
        """Decoded view of the frames put on the LANs since the preparation:
        dict(serial, parent, net, src, dst, n (independent NPCI parse), apdu octets or None)."""
        out = []
        for idx in range(self.warm_frames if start is None else start, len(self.wire.log)):
            (t, net, src, dst, data) = self.wire.log[idx]
            try:
                n = ssmwire.parse_npdu(data)
            except ssmwire.WireError as err:
                n = {"error": str(err), "netmsg": None, "payload": b"", "hop": None, "dnet": None, "dadr": None, "snet": None, "sadr": None}
            out.append({"serial": idx + 1, "parent": self.parent.get(idx + 1), "net": self.lan_index[net], "src": src, "dst": dst,
                        "n": n, "apdu": n["payload"] if n.get("netmsg") is None else None})
        return out

    def recorded(self):
        return [list(node.nsap.router_info_cache.calls) for node in self.stations + self.routers]

    def tables_now(self):
        out = []
        for node in self.stations + self.routers:
            c = node.nsap.router_info_cache
            out.append((tuple(sorted((repr(k), str(v.address), v.dnets.get(k[1])) for k, v in c.path_info.items())),
                        tuple(sorted((repr(k), len(v)) for k, v in node.nsap.pending_nets.items()))))
        return tuple(out)

    def canon_state(self):
        fl = tuple(sorted((f.net.name, str(f.src), str(f.dst), f.data) for f in self.wire.inflight))
        order = tuple((f.net.name, f.data) for f in self.wire.inflight)
        # per-LAN order matters, cross-LAN order does not (the menu offers the oldest of every LAN)
        per_lan = tuple(sorted((name, tuple(d for (n, d) in order if n == name)) for name in set(n for n, _ in order)))
        return (self.tables_now(), fl, per_lan, tuple(sorted(self.deliveries, key=repr)), len(self.owed), len(self.phases))

    def state_hash(self, salt):
        return h64((salt, self.canon_state()))

    def swallowed(self):
        return list(vclock.swallowed) + [("wire", e) for e in self.wire.errors] + [("driver", e) for e in self.errors]

    def observation(self):
        return (self.deliveries, self.wire.log, self.trace, self.order, sorted(self.parent.items()), self.swallowed(), self.tables_now(),
                tuple(self.dropped))


def run_execution(make, choices, max_steps, want_states=None, salt=None):
    """make() -> started NetSystem with the scenario's traffic already handed down.  Replays `choices`
    (indexes into the menu at each decision point), then takes the default until nothing is in flight.
    -> (system, points)."""
    from bv.engine.pool import HarnessError
    sysm = make()
    points = []
    i = 0
    while True:
        m = sysm.menu()
        if not m:
            if sysm.owed:
                sysm.pay_owed()
                continue
            if sysm.phases:
                sysm.phases.pop(0)()
                continue
            break
        if i < len(choices):
            idx = choices[i]
            if idx >= len(m):
                raise HarnessError("replay diverged at point %d: choice %d not in menu %r" % (i, idx, m))
        else:
            idx = 0
        points.append((m, idx))
        sysm.apply(m[idx][0])
        if want_states is not None:
            want_states.add(sysm.state_hash(salt))
        i += 1
        if i >= max_steps or sysm.livelock:
            sysm.horizon_hit = True
            break
    return sysm, points
