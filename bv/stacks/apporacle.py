"""Oracles over one complete execution of the S-APP system (used by C04, C05, C11, C12)."""
import bv  # noqa: F401
from bacpypes import core as _core

from bv.engine import vclock
from bv.refs import ssmwire
from bv.stacks import app as A
from bv.stacks.appsys import frame_label

STATE_NAMES = ['IDLE', 'SEGMENTED_REQUEST', 'AWAIT_CONFIRMATION', 'AWAIT_RESPONSE', 'SEGMENTED_RESPONSE',
               'SEGMENTED_CONFIRMATION', 'COMPLETED', 'ABORTED']


def time_bound(cfg, nreq_segs, nresp_segs):
    """Upper bound (seconds) for the outcome of one request.  Unsegmented both ways the only timer is the APDU timeout,
    so the bound is exact: (retries + 1) x T_apdu.  With segments every wait the client side can legitimately perform is
    counted generously (late frames restart segment timers), each repeated retries+1 times."""
    c = cfg.c
    r = c["retries"] + 1
    if nreq_segs <= 1 and nresp_segs <= 1:
        return r * c["apdu_timeout"] / 1000.0 + 0.5
    seg = c["seg_timeout"] / 1000.0
    per_try = c["apdu_timeout"] / 1000.0 + (nreq_segs + 1) * r * seg
    return r * per_try + (nresp_segs + 2) * 4 * seg + 1.0


def judge_retransmissions(sysm, problems):
    """An unsegmented request goes out at most retries + 1 times (identical frames of the requesting stack)."""
    client_mac = str(sysm.client.address)
    limit = sysm.cfg.c["retries"] + 1
    counts = {}
    for ev in sysm.events:
        if ev[0] != "emit" or ev[2] != client_mac:
            continue
        try:
            n, a = ssmwire.parse_frame(ev[4])
        except ssmwire.WireError:
            continue
        if a is not None and a["type"] == 0 and not a["seg"]:
            counts[(a["invoke"], ev[4])] = counts.get((a["invoke"], ev[4]), 0) + 1
    for (inv, data), k in counts.items():
        if k > limit:
            problems.append(("request-transmitted-more-often-than-retries-allow", {"invoke": inv, "transmissions": k, "retries": limit - 1}))


def seg_count(total_len, seg_size):
    if total_len <= 0:
        return 1
    return (total_len + seg_size - 1) // seg_size


def swallowed_kinds(sysm):
    kinds = set()
    for name, msg in sysm.swallowed():
        m = msg
        for pre in ("an error has occurred: ",):
            if m.startswith(pre):
                m = m[len(pre):]
        kinds.add("%s:%s" % (name.split(".")[-1], m[:48]))
    return sorted(kinds)


def judge_outcomes(sysm, problems):
    """Exactly one outcome per submitted request; returns {sn: confirmation tuple}"""
    cfg = sysm.cfg
    got = {}
    confs = sysm.client.confirmations
    for e in sysm.errors:
        if e.startswith("submit:") or e.startswith("iam:") or e.startswith("sidetalk:"):
            problems.append(("submitting-the-request-raised:%s" % e.split(":")[1], {"error": e}))
    if len(sysm.submitted) + sum(1 for e in sysm.errors if e.startswith("submit:")) != len(cfg.reqs):
        if cfg.via == "iocb-chain":
            # the application submits request k+1 from the completion callback of request k
            problems.append(("chained-request-never-submitted-because-previous-has-no-outcome",
                             {"submitted": len(sysm.submitted), "of": len(cfg.reqs)}))
        else:
            problems.append(("harness:not-every-request-was-submitted", {"submitted": len(sysm.submitted)}))
    for sn, req in sysm.submitted:
        inv = req.apduInvokeID
        mine = [c for c in confs if c[3] == inv]
        if len(mine) == 0:
            states = [STATE_NAMES[t.state] for t in sysm.client.smap.clientTransactions if t.invokeID == inv]
            problems.append(("no-outcome:client-state=%s" % (",".join(states) or "gone"),
                             {"request": sn, "invoke": inv}))
        elif len(mine) > 1:
            problems.append(("multiple-outcomes:%s" % "+".join(c[1] for c in mine), {"request": sn, "invoke": inv,
                             "confirmations": [(c[0], c[1], c[4] if not isinstance(c[4], bytes) else len(c[4])) for c in mine]}))
        else:
            got[sn] = mine[0]
            if mine[0][1] not in ("ack", "error", "reject", "abort"):
                problems.append(("outcome-of-unknown-kind:%s" % mine[0][1], {"request": sn}))
    others = [c for c in confs if c[3] not in [r.apduInvokeID for _, r in sysm.submitted]]
    if others:
        problems.append(("confirmation-for-no-request", {"confirmations": [(c[1], c[3]) for c in others]}))
    if cfg.via in ("iocb", "iocb-chain"):
        for k, iocb in enumerate(sysm.client.iocbs):
            if iocb.calls != 1:
                problems.append(("iocb-callback-count:%d" % iocb.calls, {"iocb": k, "state": iocb.ioState}))
    return got


def judge_payloads(sysm, got, problems):
    """Whatever is delivered to an application is octet-for-octet what was submitted."""
    cfg = sysm.cfg
    for sn, c in got.items():
        if c[1] == "ack":
            want = A.stream("resp%d" % sn, cfg.reqs[sn - 1][1])
            if c[6] != sn or c[4] != want:
                problems.append(("response-payload-corrupted", {"request": sn, "got_len": len(c[4]) if isinstance(c[4], bytes) else c[4],
                                                                  "want_len": len(want), "service_number": c[6],
                                                                  "first_diff": first_diff(c[4], want)}))
    for ind in sysm.server.indications:
        sn = ind[3]
        if not (1 <= sn <= len(cfg.reqs)):
            problems.append(("indication-of-unknown-request", {"service_number": sn}))
            continue
        want = A.stream("req%d" % sn, cfg.reqs[sn - 1][0])
        if ind[4] != want:
            problems.append(("request-payload-corrupted", {"request": sn, "got_len": len(ind[4]) if isinstance(ind[4], bytes) else ind[4],
                                                             "want_len": len(want), "first_diff": first_diff(ind[4], want)}))


def first_diff(a, b):
    if not isinstance(a, bytes) or not isinstance(b, bytes):
        return None
    for i, (x, y) in enumerate(zip(a, b)):
        if x != y:
            return i
    return min(len(a), len(b)) if len(a) != len(b) else None


def judge_residue(sysm, problems):
    for who, app in (("client", sysm.client), ("server", sysm.server)):
        res = A.residue(app)
        for k, v in res.items():
            problems.append(("residue:%s:%s" % (who, k), {"what": v}))
    tasks = [x for x in vclock.pending_tasks() if x[2] is not getattr(sysm, "background_task", None)]
    if tasks:
        problems.append(("residue:timer:%s" % ",".join(sorted(set(type(t).__name__ for (_, _, t) in tasks))),
                         {"tasks": [(w, type(t).__name__, getattr(t, "state", None)) for (w, n, t) in tasks]}))
    if _core.deferredFns:
        problems.append(("residue:deferred-functions", {"n": len(_core.deferredFns)}))
    if sysm.cfg.via in ("iocb", "iocb-chain"):
        q = sysm.client.queue_by_address
        if q:
            problems.append(("residue:client:iocb-queue", {"queues": [str(k) for k in q]}))


def judge_stale_timers(sysm, problems):
    """No step of the execution left a finished transaction with a timer in the task manager."""
    stale = getattr(sysm, "stale_timers", None)
    if stale:
        problems.append(("timer-of-a-finished-transaction-still-scheduled:%s" % stale[0][1],
                         {"first seen at": stale[0][0], "transaction": stale[0][1], "state": stale[0][2], "armed for": stale[0][3], "more": stale[1:]}))


def judge_late_frames(sysm, got, problems):
    """After the outcome of a request was delivered, the requesting stack emits nothing more for it."""
    client_mac = str(sysm.client.address)
    conf_at = {}
    for i, ev in enumerate(sysm.events):
        if ev[0] == "conf":
            conf_at.setdefault(ev[4], i)        # invoke id -> event index
    for i, ev in enumerate(sysm.events):
        if ev[0] != "emit" or ev[2] != client_mac:
            continue
        try:
            n, a = ssmwire.parse_frame(ev[4])
        except ssmwire.WireError:
            continue
        if a is None or a["invoke"] is None:
            continue
        if a["type"] in (2, 3, 5, 6) or (a["type"] in (4, 7) and a["srv"]):
            continue    # frames the client stack sends in its server role
        at = conf_at.get(a["invoke"])
        if at is not None and i > at:
            problems.append(("frame-after-outcome:%s" % frame_label(ev[4]), {"invoke": a["invoke"], "t": ev[1]}))


def judge_timing(sysm, got, problems, nreq_segs, nresp_segs):
    cfg = sysm.cfg
    bound = time_bound(cfg, nreq_segs, nresp_segs) * max(1, len(cfg.reqs))
    for sn, c in got.items():
        if c[0] > bound:
            problems.append(("outcome-later-than-bound", {"request": sn, "t": c[0], "bound": bound}))
    if getattr(sysm, "horizon_hit", False):
        problems.append(("no-quiescence-within-step-horizon%s" % (":livelock-in-one-instant" if getattr(sysm, "livelock", False) else ""),
                         {"steps": sysm.steps, "t": vclock.clock.now}))
    elif vclock.clock.now > 2 * bound + cfg.s["app_timeout"] / 1000.0 + cfg.c["app_timeout"] / 1000.0:
        problems.append(("quiescence-later-than-bound", {"t": vclock.clock.now, "bound": bound}))


def iocb_order(sysm, problems):
    """A queued IOCB to the same peer starts only after the previous one finished."""
    if sysm.cfg.via != "iocb" or len(sysm.submitted) < 2:
        return
    client_mac = str(sysm.client.address)
    invs = [r.apduInvokeID for _, r in sysm.submitted]
    first_emit = {}
    conf_at = {}
    for i, ev in enumerate(sysm.events):
        if ev[0] == "conf":
            conf_at.setdefault(ev[4], i)
        elif ev[0] == "emit" and ev[2] == client_mac:
            try:
                n, a = ssmwire.parse_frame(ev[4])
            except ssmwire.WireError:
                continue
            if a and a["type"] == 0:
                first_emit.setdefault(a["invoke"], i)
    for a, b in zip(invs, invs[1:]):
        if b is None or a is None:
            continue
        if b in first_emit and (a not in conf_at or first_emit[b] < conf_at[a]):
            problems.append(("queued-iocb-started-before-previous-finished", {"first": a, "second": b}))
