"""E2: explicit-state breadth-first search, level-synchronous, frontier farmed out to workers.

A state is identified by the 64-bit hash of its canonical form; it is *represented* by one event
history that reaches it (live objects do not copy reliably, so successors are built by replaying the
history on fresh objects inside the worker).

expand(item, deadline) -> Acc, where item = (ctx, [history, ...]) and the Acc carries
    info["next"] = [(state_hash, history), ...]      successors (not yet deduplicated)
plus evaluations/transitions/fails recorded by the property's oracle.
"""
import time

from .acc import Acc
from .pool import run_shards, chunks, WORKERS


def bfs(expand, ctx, init_hist, init_hash, max_depth, deadline, acc, max_states=200000, label="bfs",
        shards_per_level=None):
    seen = {init_hash}
    frontier = [tuple(init_hist)]
    depth = 0
    closed = False
    capped = None
    while True:
        if not frontier:
            closed = True
            break
        if depth >= max_depth:
            capped = "%s: depth bound %d reached with %d frontier states" % (label, max_depth, len(frontier))
            break
        if time.time() > deadline:
            capped = "%s: deadline at depth %d with %d frontier states" % (label, depth, len(frontier))
            acc.cap(capped)
            break
        if len(seen) > max_states:
            capped = "%s: state cap %d reached at depth %d" % (label, max_states, depth)
            acc.cap(capped)
            break
        n = shards_per_level or max(1, min(WORKERS * 4, len(frontier) // 4 or 1))
        items = [(ctx, c) for c in chunks(frontier, n)]
        sub = run_shards(expand, items, deadline, persistent=True)
        nxt = sub.info.pop("next", [])
        acc.merge(sub)
        depth += 1
        frontier = []
        for k, hist in nxt:
            if k not in seen:
                seen.add(k)
                frontier.append(tuple(hist))
        acc.max_depth = max(acc.max_depth, depth)
    for k in seen:
        acc.states.add(k)
        acc.keys.add(k)
    acc.info["%s states" % label] = len(seen)
    acc.info["%s depth" % label] = depth
    acc.info["%s closed" % label] = closed
    if acc.closed is None:
        acc.closed = closed
    else:
        acc.closed = acc.closed and closed
    return seen, closed, capped
