"""E2: explicit-state breadth-first search, level-synchronous, frontier farmed out to workers.

A state is identified by the 64-bit hash of its canonical form; it is *represented* by one event
history that reaches it (live objects do not copy reliably, so successors are built by replaying the
history on fresh objects inside the worker).

expand(item, deadline) -> Acc, where item = (ctx, [history, ...]) and the Acc carries
    info["next"] = [(state_hash, history), ...]      successors (not yet deduplicated)
plus evaluations/transitions/fails recorded by the property's oracle.
"""
import time

from .acc import Acc
from .pool import run_shards, chunks, WORKERS


def bfs(expand, ctx, init_hist, init_hash, max_depth, deadline, acc, max_states=200000, label="bfs",
        shards_per_level=None, on_lasso=None):
    """on_lasso: when given, `next` entries are (state_hash, history, timeless_hash) and the search reports every
    new state whose *timeless* canonical form (absolute time removed) already occurred on the path that first
    reached it: the environment can then repeat that segment for ever, i.e. the execution has no time bound.
    on_lasso(history, ancestor_depth) -> (signature, detail, case) is recorded as a failing case (once per label)."""
    seen = {init_hash}
    parent = {init_hash: (None, None)}      # state -> (parent state, timeless hash)
    lassos = 0
    frontier = [tuple(init_hist)]
    depth = 0
    closed = False
    capped = None
    while True:
        if not frontier:
            closed = True
            break
        if depth >= max_depth:
            capped = "%s: depth bound %d reached with %d frontier states" % (label, max_depth, len(frontier))
            break
        if time.time() > deadline:
            capped = "%s: deadline at depth %d with %d frontier states" % (label, depth, len(frontier))
            acc.cap(capped)
            break
        if len(seen) > max_states:
            capped = "%s: state cap %d reached at depth %d" % (label, max_states, depth)
            acc.cap(capped)
            break
        n = shards_per_level or max(1, min(WORKERS * 4, len(frontier) // 4 or 1))
        items = [(ctx, c) for c in chunks(frontier, n)]
        sub = run_shards(expand, items, deadline, persistent=True)
        nxt = sub.info.pop("next", [])
        acc.merge(sub)
        depth += 1
        frontier = []
        for ent in nxt:
            k, hist = ent[0], ent[1]
            if k not in seen:
                seen.add(k)
                if on_lasso is not None and len(ent) > 3:
                    tl, par = ent[2], ent[3]
                    parent[k] = (par, tl)
                    a, steps = par, 1
                    while a is not None:
                        pa, atl = parent.get(a, (None, None))
                        if atl == tl:
                            lassos += 1
                            if lassos <= 3:
                                sig, detail, case = on_lasso(tuple(hist), steps)
                                acc.fail(sig, detail, case)
                            break
                        a, steps = pa, steps + 1
                    if a is not None:
                        continue            # do not expand a state that only repeats an ancestor
                frontier.append(tuple(hist))
        acc.max_depth = max(acc.max_depth, depth)
    for k in seen:
        acc.states.add(k)
        acc.keys.add(k)
    acc.info["%s states" % label] = len(seen)
    acc.info["%s depth" % label] = depth
    acc.info["%s closed" % label] = closed
    if on_lasso is not None:
        acc.info["%s lassos" % label] = lassos
    if acc.closed is None:
        acc.closed = closed
    else:
        acc.closed = acc.closed and closed
    return seen, closed, capped
