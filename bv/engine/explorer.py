"""E1: deviation-bounded stateless exploration (iterative context bounding for an event loop).

`run(choices)` must rebuild the system from scratch, replay `choices` (indexes into the menu at each
decision point), then take choice 0 until the execution ends, and return (x, points) where
points[i] = (menu_i, chosen_i) and menu entries are (label, cost); cost 0 = default environment answer.
"""
import time


def children(points, prefix_len, bound):
    """All one-more-deviation prefixes reachable from this execution within the bound."""
    out = []
    cost = 0
    for i, (m, idx) in enumerate(points):
        if i >= prefix_len:
            for alt in range(1, len(m)):
                if cost + m[alt][1] <= bound:
                    out.append(tuple(p[1] for p in points[:i]) + (alt,))
        cost += m[idx][1]
    return out


def deviations(points):
    return sum(m[idx][1] for (m, idx) in points)


def explore(run, bound, on_exec, deadline, roots=((),), max_exec=None):
    """Depth-first over prefixes.  on_exec(x, points, prefix) judges one complete execution.
    Returns (executions, capped)."""
    stack = [tuple(r) for r in reversed(list(roots))]
    n = 0
    while stack:
        if time.time() > deadline or (max_exec is not None and n >= max_exec):
            return n, True
        prefix = stack.pop()
        x, points = run(prefix)
        n += 1
        on_exec(x, points, prefix)
        kids = children(points, len(prefix), bound)
        stack.extend(reversed(kids))
    return n, False


def labels(points):
    return [m[idx][0] for (m, idx) in points]
