"""Virtual time for the *real* TaskManager / core loop of bacpypes.

`bacpypes.task._time` is the only clock the scheduler reads (get_time and
get_next_task); it is rebound to a virtual clock, so the real heap, tie-breaker,
suspend and recurring-slot code runs unchanged.  The event loop used is the
real `core.run_once()`, which has the same catch-all as `core.run()`; what it
swallows is logged to the 'bacpypes' loggers, which we capture.
"""
import itertools
import logging

import bv  # noqa: F401  (path)
from bacpypes import core as _core
from bacpypes import task as _task
from bacpypes import comm as _comm
from bacpypes import iocb as _iocb


class _Clock(object):
    def __init__(self):
        self.now = 0.0

    def __call__(self):
        return self.now


clock = _Clock()
_installed = False
swallowed = []          # (logger name, message) of everything logged at ERROR+ since reset


class _Capture(logging.Handler):
    def emit(self, record):
        try:
            msg = record.getMessage()
        except Exception:
            msg = str(record.msg)
        # keep only the first line (the exception text), drop tracebacks
        swallowed.append((record.name, msg.split("\n")[0][:200]))


def install():
    """Idempotent: bind the virtual clock, create the singleton task manager, capture logging."""
    global _installed
    if _installed:
        return
    _task._time = clock
    tm = _task.TaskManager()
    if tm.trigger is not None:
        try:
            tm.trigger.close() if hasattr(tm.trigger, "close") else None
        except Exception:
            pass
        tm.trigger = None
    _core.taskManager = tm
    root = logging.getLogger("bacpypes")
    root.handlers[:] = [_Capture(level=logging.WARNING)]
    root.propagate = False
    root.setLevel(logging.WARNING)
    _installed = True


def reset(start=0.0):
    """Fresh scheduler state between executions."""
    install()
    tm = _task._task_manager
    for (_, _, t) in tm.tasks:
        t.isScheduled = False
    tm.tasks = []
    tm.counter = itertools.count()
    _core.deferredFns = []
    _core.running = False
    _task._unscheduled_tasks[:] = []
    clock.now = start
    del swallowed[:]
    # comm maps only hold explicitly named elements; clear them so names can be reused
    for m in ("client_map", "server_map", "service_map", "element_map"):
        d = getattr(_comm, m, None)
        if isinstance(d, dict):
            d.clear()
    _iocb._identNext = 1


def tm():
    return _task._task_manager


def next_due():
    """Time of the earliest installed task or None."""
    t = _task._task_manager.tasks
    return t[0][0] if t else None


def pending_tasks():
    return [(when, n, task) for (when, n, task) in sorted(_task._task_manager.tasks, key=lambda x: (x[0], x[1]))]


def settle(max_rounds=10000):
    """Run everything that is due *now* (zero-delay tasks, deferred functions) with the real
    core.run_once() until nothing is due at the current instant.  Returns number of rounds;
    raises Livelock if the instant never quiesces."""
    rounds = 0
    while True:
        nd = next_due()
        if not _core.deferredFns and (nd is None or nd > clock.now):
            return rounds
        _core.run_once()
        rounds += 1
        if rounds > max_rounds:
            raise Livelock("instant %.6f does not quiesce after %d run_once rounds" % (clock.now, rounds))


class Livelock(Exception):
    pass


def advance_to(t):
    """Move the clock forward to t (never backwards) and settle."""
    if t > clock.now:
        clock.now = t
    return settle()


def fire_next_timer():
    """Advance to the earliest task's time and run everything due then."""
    nd = next_due()
    if nd is None:
        return False
    advance_to(nd)
    return True


def run_until(t_end, max_steps=1000000):
    """Fire timers in order until none is due at or before t_end; leave clock at t_end."""
    settle()
    steps = 0
    while True:
        nd = next_due()
        if nd is None or nd > t_end:
            break
        advance_to(nd)
        steps += 1
        if steps > max_steps:
            raise Livelock("run_until exceeded %d timer steps" % max_steps)
    if t_end > clock.now:
        clock.now = t_end
    return steps
