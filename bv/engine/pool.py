"""Sharding of an enumeration over long-lived worker processes (fork)."""
import atexit
import multiprocessing
import os
import time
import traceback

from .acc import Acc

WORKERS = int(os.environ.get("BV_WORKERS", "0")) or min(16, os.cpu_count() or 1)


class HarnessError(Exception):
    """The harness itself misbehaved (non-determinism): exit 2, never a VIOLATION."""


class CheckCrashed(Exception):
    """An exception nobody anticipated escaped from the code under test into the check (in a worker or in the parent).
    On the unchanged tree this never happens; on a changed tree it is reported as a violation with the traceback."""


def _call(packed):
    fn, item, deadline = packed
    try:
        acc = fn(item, deadline)
        if not isinstance(acc, Acc):
            raise TypeError("shard function %r returned %r" % (fn, type(acc)))
        return ("ok", acc)
    except HarnessError as err:
        return ("harness", "%s\n%s" % (err, traceback.format_exc()))
    except BaseException as err:  # a crash of the harness, not of the code under test
        return ("crash", "%r\n%s" % (err, traceback.format_exc()))


def run_shards(fn, items, deadline, workers=None, into=None, ordered=False, persistent=False):
    """Run fn(item, deadline) -> Acc for every item, merge into one Acc.

    fn must be a module-level function.  `deadline` is an absolute time.time();
    shard functions are expected to poll it and to record a cap when they stop
    early.  Items not started before the deadline are recorded as a cap."""
    items = list(items)
    total = into if into is not None else Acc()
    workers = workers or WORKERS
    if not items:
        return total
    if workers <= 1 or len(items) == 1:
        for it in items:
            if time.time() > deadline:
                total.cap("deadline reached before all shards were started")
                break
            kind, val = _call((fn, it, deadline))
            if kind == "crash":
                raise CheckCrashed(val)
            if kind != "ok":
                raise HarnessError("shard %r failed: %s" % (it, val))
            total.merge(val)
        return total
    if persistent:
        pool = _get_pool(workers)
    else:
        pool = multiprocessing.get_context("fork").Pool(min(workers, len(items)))
    try:
        packed = [(fn, it, deadline) for it in items]
        it = pool.imap(_call, packed, chunksize=1) if ordered else pool.imap_unordered(_call, packed, chunksize=1)
        for kind, val in it:
            if kind == "crash":
                raise CheckCrashed(val)
            if kind != "ok":
                raise HarnessError("shard failed: %s" % (val,))
            total.merge(val)
    except BaseException:
        # workers may be blocked writing large results nobody reads any more: kill them before terminate()
        _kill_workers(pool)
        if persistent:
            _drop_pool()
        raise
    finally:
        if not persistent:
            pool.terminate()
            pool.join()
    return total


def _kill_workers(pool):
    for proc in list(getattr(pool, "_pool", []) or []):
        try:
            proc.kill()
        except Exception:
            pass


_POOL = None
_POOL_SIZE = 0


def _get_pool(workers):
    """One long-lived pool of forked workers per process (forking per call costs ~0.1 s, which a level-synchronous
    search pays hundreds of times)."""
    global _POOL, _POOL_SIZE
    if _POOL is None or _POOL_SIZE != workers:
        _drop_pool()
        ctx = multiprocessing.get_context("fork")
        _POOL = ctx.Pool(workers)
        _POOL_SIZE = workers
        atexit.register(_drop_pool)
    return _POOL


def _drop_pool():
    global _POOL
    if _POOL is not None:
        try:
            _POOL.terminate()
            _POOL.join()
        except Exception:
            pass
        _POOL = None


def chunks(seq, n):
    """Split a list into about n interleaved shards (keeps simplest-first order inside each)."""
    seq = list(seq)
    n = max(1, min(n, len(seq)))
    return [seq[i::n] for i in range(n)]
