"""Controlled virtual LANs: frames are parked instead of delivered; the explorer decides.

`vlan.Node.indication` hands every frame to `lan.process_pdu` in a zero-delay
task.  The subclasses below park the frame in a shared in-flight pool.  A
delivery calls the stock `Network.process_pdu` (deepcopy per receiving node,
broadcast/unicast/promiscuous rules unchanged) under the same catch-all the
real event loop has around a task.
"""
import bv  # noqa: F401
from bacpypes import vlan as _vlan
from bacpypes.pdu import LocalBroadcast

from . import vclock


class Frame(object):
    __slots__ = ("serial", "net", "pdu", "src", "dst", "data", "copies", "born")

    def __init__(self, serial, net, pdu, born):
        self.serial = serial
        self.net = net
        self.pdu = pdu
        self.src = pdu.pduSource
        self.dst = pdu.pduDestination
        self.data = bytes(pdu.pduData)
        self.copies = 0
        self.born = born

    def key(self):
        return (self.net.name, str(self.src), str(self.dst), self.data)


class Wire(object):
    """In-flight pool + passive log shared by all controlled networks of one system."""

    def __init__(self):
        self.inflight = []      # Frames in order of transmission
        self.log = []           # every frame ever put on a wire: (t, net, src, dst, octets)
        self.serial = 0
        self.errors = []        # exceptions raised while delivering (swallowed like core.run does)
        self.auto = False       # True: deliver immediately (perfect network)
        self.keep_delivered = False
        self.delivered = []     # Frames that were delivered (kept only on request: stragglers of an earlier exchange)

    def park(self, net, pdu):
        self.serial += 1
        fr = Frame(self.serial, net, pdu, vclock.clock.now)
        self.log.append((vclock.clock.now, net.name, str(fr.src), str(fr.dst), fr.data))
        if self.auto:
            self._deliver(fr)
        else:
            self.inflight.append(fr)

    def _deliver(self, fr):
        try:
            _vlan.Network.process_pdu(fr.net, fr.pdu)
        except Exception as err:  # mirror of core.run's catch-all around a task
            self.errors.append("%s: %s" % (type(err).__name__, str(err)[:160]))

    def deliver(self, i=0, keep=False):
        """Deliver in-flight frame i.  keep=True leaves a copy in flight (duplication)."""
        fr = self.inflight[i]
        if keep:
            fr.copies += 1
            # the copy that stays must be independent of what receivers do with the PDU
        else:
            del self.inflight[i]
        if self.keep_delivered and not any(f is fr for f in self.delivered):
            self.delivered.append(fr)
        self._deliver(fr)
        return fr

    def drop(self, i=0):
        return self.inflight.pop(i)

    def flush(self, max_frames=100000):
        """Deliver everything FIFO until no frame is in flight at this instant."""
        n = 0
        vclock.settle()
        while self.inflight:
            self.deliver(0)
            vclock.settle()
            n += 1
            if n > max_frames:
                raise vclock.Livelock("more than %d frames delivered in one flush" % max_frames)
        return n


class CtlNetwork(_vlan.Network):
    def __init__(self, wire, name="", broadcast_address=None):
        _vlan.Network.__init__(self, name=name,
                               broadcast_address=LocalBroadcast() if broadcast_address is None else broadcast_address)
        self.wire = wire

    def process_pdu(self, pdu):
        self.wire.park(self, pdu)


class CtlIPNetwork(_vlan.IPNetwork):
    def __init__(self, wire, name=""):
        _vlan.IPNetwork.__init__(self, name=name)
        self.wire = wire

    def process_pdu(self, pdu):
        self.wire.park(self, pdu)


def run_quiet(wire, horizon, max_events=200000):
    """Perfect-network driver: deliver FIFO, fire timers in order, until nothing is in flight and no
    timer is due before `horizon` (absolute virtual time).  Returns events executed."""
    n = 0
    vclock.settle()
    while True:
        if wire.inflight:
            wire.deliver(0)
            vclock.settle()
        else:
            nd = vclock.next_due()
            if nd is None or nd > horizon:
                break
            vclock.advance_to(nd)
        n += 1
        if n > max_events:
            raise vclock.Livelock("run_quiet exceeded %d events" % max_events)
    return n
