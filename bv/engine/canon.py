"""Canonical, hashable snapshot of live bacpypes objects (for state deduplication).

Over-approximates on purpose: every scalar / bytes / container attribute reachable from the roots is
kept, so a field added by a change to the code becomes part of the state automatically.  Only
back-references into the stack wiring are skipped; timers are reduced to (scheduled, taskTime - now).
"""
import bv  # noqa: F401
from bacpypes.task import _Task
from bacpypes.pdu import Address
from bacpypes.comm import PDUData

SKIP = frozenset((
    "ssmSAP", "localDevice", "clientPeer", "serverPeer", "elementService", "serviceElement", "_app",
    "deviceInfoCache", "lan", "wire", "_cache_keys", "pduUserData", "ioController", "ioCallback",
    "ioComplete", "ioTimeout", "trigger", "counter",
))


def canon(x, now=0.0, memo=None, depth=0, skip=SKIP):
    if memo is None:
        memo = {}
    if x is None or isinstance(x, (bool, int, str, bytes)):
        return x
    if isinstance(x, float):
        return round(x, 6)
    if isinstance(x, bytearray):
        return bytes(x)
    if depth > 14:
        return "<deep>"
    if isinstance(x, (list, tuple)):
        return tuple(canon(i, now, memo, depth + 1, skip) for i in x)
    if isinstance(x, dict):
        return tuple(sorted(((canon(k, now, memo, depth + 1, skip), canon(v, now, memo, depth + 1, skip))
                             for k, v in x.items()), key=repr))
    if isinstance(x, (set, frozenset)):
        return tuple(sorted((canon(i, now, memo, depth + 1, skip) for i in x), key=repr))
    if isinstance(x, Address):
        return "addr:" + str(x)
    if id(x) in memo:
        return ("ref", memo[id(x)])
    memo[id(x)] = len(memo)
    d = getattr(x, "__dict__", None)
    if d is None:
        slots = getattr(type(x), "__slots__", None)
        if slots:
            return (type(x).__name__,) + tuple((s, canon(getattr(x, s, None), now, memo, depth + 1, skip)) for s in slots)
        if callable(x):
            return "<fn %s>" % getattr(x, "__name__", "?")
        return "<%s>" % type(x).__name__
    items = []
    for k in sorted(d):
        if k in skip:
            continue
        v = d[k]
        if k == "taskTime":
            if d.get("isScheduled"):
                v = round(v - now, 6) if v is not None else None
            else:
                v = None        # a timer that is not armed has no observable time
        elif callable(v) and not hasattr(v, "__dict__"):
            continue
        items.append((k, canon(v, now, memo, depth + 1, skip)))
    return (type(x).__name__,) + tuple(items)
