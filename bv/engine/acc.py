"""Mergeable accumulator of what one exploration (or one shard of it) covered.

Every property module fills one of these per shard; shards are merged in the
parent process.  Nothing here decides anything: it only counts, keeps a few
written-out cases and groups failing cases by root-cause signature.
"""
import hashlib
import json
from collections import Counter

MAX_FAILS_PER_SIG = 3
MAX_SIGS = 400
MAX_SAMPLES = 6


def h64(obj):
    """Stable 64-bit hash of a canonical (json-able or repr-able) object."""
    if isinstance(obj, bytes):
        data = obj
    elif isinstance(obj, str):
        data = obj.encode("utf-8", "surrogatepass")
    else:
        data = repr(obj).encode("utf-8", "surrogatepass")
    return int.from_bytes(hashlib.blake2b(data, digest_size=8).digest(), "big")


def jsonable(x, depth=0):
    """Best-effort conversion for replay files and samples."""
    if depth > 12:
        return repr(x)
    if x is None or isinstance(x, (bool, int, str)):
        return x
    if isinstance(x, float):
        if x != x or x in (float("inf"), float("-inf")):
            return repr(x)
        return x
    if isinstance(x, (bytes, bytearray)):
        return {"hex": bytes(x).hex()}
    if isinstance(x, (list, tuple)):
        return [jsonable(i, depth + 1) for i in x]
    if isinstance(x, (set, frozenset)):
        return sorted((jsonable(i, depth + 1) for i in x), key=repr)
    if isinstance(x, dict):
        return {str(k): jsonable(v, depth + 1) for k, v in x.items()}
    return repr(x)


def unjson(x):
    """Inverse of jsonable for the {"hex": ...} convention."""
    if isinstance(x, dict):
        if set(x.keys()) == {"hex"}:
            return bytes.fromhex(x["hex"])
        return {k: unjson(v) for k, v in x.items()}
    if isinstance(x, list):
        return [unjson(i) for i in x]
    return x


class Acc(object):
    """Counts + failing cases of one shard.  Picklable, mergeable."""

    def __init__(self):
        self.evaluations = 0          # cases / executions run
        self.keys = set()             # 64-bit hashes of distinct non-trivial cases
        self.states = set()           # 64-bit hashes of distinct canonical states (E1/E2)
        self.transitions = 0          # events executed against the implementation
        self.traces = 0               # complete executions (each one is an implementation run)
        self.outcomes = Counter()     # distinct observed outcomes (vacuity indicator)
        self.fails = {}               # signature -> {"count", "cases": [..]}
        self.samples = []             # a few written-out cases
        self.caps = []                # caps / watchdogs hit (strings)
        self.swallowed = Counter()    # exceptions the library's event loop swallowed
        self.info = {}                # free-form per-part numbers (summed if int)
        self.max_depth = 0
        self.closed = None            # E2: frontier emptied

    # -- filling
    def case(self, key=None, n=1):
        self.evaluations += n
        if key is not None:
            self.keys.add(key if isinstance(key, int) else h64(key))

    def state(self, canon):
        k = canon if isinstance(canon, int) else h64(canon)
        new = k not in self.states
        if new:
            self.states.add(k)
        return new

    def outcome(self, label, n=1):
        self.outcomes[label] += n

    def sample(self, s):
        if len(self.samples) < MAX_SAMPLES:
            self.samples.append(jsonable(s))

    def fail(self, signature, detail, case):
        """Record a failing case.  `signature` names the root cause (never just
        'property failed'); `case` must be enough for the property's replay()."""
        ent = self.fails.get(signature)
        if ent is None:
            if len(self.fails) >= MAX_SIGS:
                self.caps.append("more than %d distinct failure signatures" % MAX_SIGS)
                signature = "~overflow"
                ent = self.fails.setdefault(signature, {"count": 0, "cases": []})
            else:
                ent = self.fails[signature] = {"count": 0, "cases": []}
        ent["count"] += 1
        if len(ent["cases"]) < MAX_FAILS_PER_SIG:
            ent["cases"].append({"detail": jsonable(detail), "case": jsonable(case)})

    def cap(self, text):
        if text not in self.caps:
            self.caps.append(text)

    def add_info(self, key, n=1):
        self.info[key] = self.info.get(key, 0) + n

    # -- merging
    def merge(self, other):
        self.evaluations += other.evaluations
        self.keys |= other.keys
        self.states |= other.states
        self.transitions += other.transitions
        self.traces += other.traces
        self.outcomes.update(other.outcomes)
        self.swallowed.update(other.swallowed)
        for sig, ent in other.fails.items():
            mine = self.fails.setdefault(sig, {"count": 0, "cases": []})
            mine["count"] += ent["count"]
            for c in ent["cases"]:
                if len(mine["cases"]) < MAX_FAILS_PER_SIG:
                    mine["cases"].append(c)
        for s in other.samples:
            if len(self.samples) < MAX_SAMPLES:
                self.samples.append(s)
        for c in other.caps:
            self.cap(c)
        for k, v in other.info.items():
            if isinstance(v, bool):
                self.info[k] = v
            elif isinstance(v, int) and isinstance(self.info.get(k, 0), int):
                self.info[k] = self.info.get(k, 0) + v
            elif isinstance(v, list) and isinstance(self.info.get(k, []), list):
                self.info.setdefault(k, []).extend(v)
            else:
                self.info[k] = v
        self.max_depth = max(self.max_depth, other.max_depth)
        if other.closed is not None:
            self.closed = other.closed if self.closed is None else (self.closed and other.closed)
        return self


def dumps(obj):
    return json.dumps(jsonable(obj), indent=1, sort_keys=True)
