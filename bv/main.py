"""CLI of the verification machinery.  See /verif/check."""
import argparse
import fnmatch
import importlib
import json
import os
import sys
import time

import bv
from bv.engine.acc import Acc, dumps, jsonable, unjson
import traceback

from bv.engine.pool import HarnessError, CheckCrashed

VERIF = bv.VERIF
FINDINGS_FILE = os.path.join(VERIF, "known_findings.json")
# runs against scratch copies (seeded changes) must not overwrite the evidence of the tree under /repo
EVIDENCE_DIR = os.environ.get("BV_EVIDENCE_DIR") or os.path.join(VERIF, "evidence")
REPLAY_DIR = os.environ.get("BV_REPLAY_DIR") or (os.path.join(os.environ["BV_EVIDENCE_DIR"], "replays")
                                                 if os.environ.get("BV_EVIDENCE_DIR") else os.path.join(VERIF, "replays"))

DEFAULT_BUDGET = {"quick": 100.0, "thorough": 1500.0}


def load_findings(prop):
    try:
        with open(FINDINGS_FILE) as f:
            data = json.load(f)
    except FileNotFoundError:
        return []
    return [e for e in data.get("findings", []) if e.get("property") == prop and e.get("status") == "known"]


def load_module(prop):
    return importlib.import_module("bv.props.%s" % prop.lower())


def write_evidence(mod, prop, tier, seed, acc, wall, n_viol, known_hit, extra_cov=None):
    level = getattr(mod, "LEVEL", "exploration")
    cov = {
        "evaluations": acc.evaluations,
        "distinct_nontrivial": len(acc.keys),
        "rule": getattr(mod, "RULE", ""),
        "samples": acc.samples[:6] or [{"note": "no sample recorded"}],
        "exhaustive": (not acc.caps) and bool(getattr(mod, "EXHAUSTIVE_WITHIN_BOUNDS", True)),
        "caps_hit": acc.caps,
        "distinct_outcomes": len(acc.outcomes),
        "outcomes": {str(k): v for k, v in sorted(acc.outcomes.items(), key=lambda kv: (-kv[1], str(kv[0])))[:40]},
        "swallowed_exceptions": {str(k): v for k, v in sorted(acc.swallowed.items(), key=lambda kv: -kv[1])[:30]},
        "known_findings_reproduced": known_hit,
        "failing_signatures": {s: e["count"] for s, e in sorted(acc.fails.items())[:60]},
        "parts": acc.info,
        "bounds": getattr(mod, "BOUNDS", {}).get(tier, ""),
    }
    if level == "model_checking":
        cov["states"] = max(1, len(acc.states))
        cov["transitions"] = max(1, acc.transitions)
        cov["traces_validated_against_impl"] = acc.traces
        cov["max_depth"] = acc.max_depth
        if acc.closed is not None:
            cov["closure_reached"] = acc.closed
        cov["trace_validation"] = ("there is no separate model: every explored trace is an execution of the "
                                   "implementation in /repo/py34 under the harness' controlled environment")
    if extra_cov:
        cov.update(extra_cov)
    ev = {
        "property_id": prop,
        "tier": tier,
        "seed": seed,
        "level": level,
        "coverage": cov,
        "assumptions": list(getattr(mod, "ASSUMPTIONS", [])),
        "wall_s": round(wall, 3),
        "violations": n_viol,
    }
    os.makedirs(EVIDENCE_DIR, exist_ok=True)
    path = os.path.join(EVIDENCE_DIR, "%s.json" % prop)
    tmp = path + ".tmp"
    with open(tmp, "w") as f:
        f.write(dumps(ev))
        f.write("\n")
    os.replace(tmp, path)
    return path


def run_check(prop, tier, seed):
    t0 = time.time()
    mod = load_module(prop)
    budget = dict(DEFAULT_BUDGET)
    budget.update(getattr(mod, "BUDGET", {}))
    if os.environ.get("BV_BUDGET"):
        budget[tier] = float(os.environ["BV_BUDGET"])
    deadline = t0 + budget[tier]
    try:
        acc = mod.run(tier, seed, deadline)
        assert isinstance(acc, Acc)
    except HarnessError:
        raise
    except Exception as err:
        # an exception escaped from the library into the check: never on the unchanged tree; on a changed tree it is
        # what the change did, so it is reported (with the traceback) instead of a bare crash
        text = str(err) if isinstance(err, CheckCrashed) else "%r\n%s" % (err, traceback.format_exc())
        last = [l for l in text.strip().splitlines() if l.strip()][-1][:160]
        acc = Acc()
        acc.evaluations = 1
        acc.fail("check-crashed:%s" % last, {"traceback": text[-3000:]}, {"crash": text[-3000:]})
        acc.cap("the check stopped at the first unanticipated exception")
    wall = time.time() - t0

    known = load_findings(prop)
    known_hit = []
    unmatched = []
    for sig in sorted(acc.fails):
        ent = acc.fails[sig]
        hit = None
        for k in known:
            if fnmatch.fnmatchcase(sig, k["signature"]):
                hit = k
                break
        if hit is not None:
            if hit["id"] not in known_hit:
                known_hit.append(hit["id"])
        else:
            unmatched.append((sig, ent))

    for k in known:
        if k["id"] in known_hit:
            n = sum(e["count"] for s, e in acc.fails.items() if fnmatch.fnmatchcase(s, k["signature"]))
            print("KNOWN-FINDING: property=%s %s [%s] (%d failing cases this run)" % (prop, k["what"], k["id"], n))

    n_viol = 0
    os.makedirs(REPLAY_DIR, exist_ok=True)
    for old in os.listdir(REPLAY_DIR):
        if old.startswith(prop + "-") and old.endswith(".json"):
            os.unlink(os.path.join(REPLAY_DIR, old))
    for i, (sig, ent) in enumerate(unmatched):
        n_viol += ent["count"]
        if i >= 25:
            continue
        path = os.path.join(REPLAY_DIR, "%s-%d.json" % (prop, i))
        with open(path, "w") as f:
            f.write(dumps({"property": prop, "signature": sig, "count": ent["count"], "tier": tier, "seed": seed,
                           "cases": ent["cases"]}))
            f.write("\n")
        first = ent["cases"][0]["detail"] if ent["cases"] else ""
        print("VIOLATION property=%s replay=%s signature=%s count=%d detail=%s"
              % (prop, path, sig, ent["count"], json.dumps(first)[:400]))
    if len(unmatched) > 25:
        print("(%d further violating signatures not written out)" % (len(unmatched) - 25))

    path = write_evidence(mod, prop, tier, seed, acc, wall, n_viol, known_hit)
    print("%s tier=%s seed=%d evaluations=%d distinct=%d states=%d transitions=%d traces=%d outcomes=%d "
          "caps=%d known=%d violations=%d wall=%.1fs evidence=%s"
          % (prop, tier, seed, acc.evaluations, len(acc.keys), len(acc.states), acc.transitions, acc.traces,
             len(acc.outcomes), len(acc.caps), len(known_hit), n_viol, wall, path))
    for c in acc.caps:
        print("  cap: %s" % c)
    return 1 if n_viol else 0


def run_replay(path):
    with open(path) as f:
        data = json.load(f)
    prop = data["property"]
    mod = load_module(prop)
    if not hasattr(mod, "replay"):
        print("property %s has no replay function; the case is: %s" % (prop, json.dumps(data["cases"][:1])[:2000]))
        return 2
    rc = 0
    for c in data.get("cases", []):
        case = unjson(c["case"])
        if isinstance(case, dict) and "crash" in case and len(case) == 1:
            print("the check itself crashed on this tree; re-run ./check %s to reproduce:\n%s" % (prop, case["crash"]))
            rc = 1
            continue
        ok, text = mod.replay(case)
        print("replay property=%s signature=%s -> %s" % (prop, data.get("signature"), "holds" if ok else "FAILS"))
        print("  " + str(text).replace("\n", "\n  ")[:4000])
        if not ok:
            rc = 1
    return rc


def selftest():
    import bacpypes
    print("bacpypes from", os.path.dirname(bacpypes.__file__))
    bad = 0
    with open(os.path.join(VERIF, "MANIFEST.json")) as f:
        man = json.load(f)
    for chk in man["checks"]:
        try:
            load_module(chk["property_id"])
        except Exception as err:
            print("cannot import check %s: %r" % (chk["property_id"], err))
            bad += 1
    print("selftest: %d checks importable, %d broken" % (len(man["checks"]) - bad, bad))
    return 1 if bad else 0


def main(argv=None):
    ap = argparse.ArgumentParser(prog="check")
    ap.add_argument("prop", nargs="?")
    ap.add_argument("--tier", default=os.environ.get("VERIF_TIER") or "quick", choices=["quick", "thorough"])
    ap.add_argument("--seed", type=int, default=int(os.environ.get("VERIF_SEED") or 0))
    ap.add_argument("--replay")
    ap.add_argument("--selftest", action="store_true")
    args = ap.parse_args(argv)
    try:
        if args.selftest:
            return selftest()
        if args.replay:
            return run_replay(args.replay)
        if not args.prop:
            ap.error("property id required")
        return run_check(args.prop.upper(), args.tier, args.seed)
    except HarnessError as err:
        print("HARNESS-ERROR: %s" % err)
        return 2


if __name__ == "__main__":
    sys.exit(main())
