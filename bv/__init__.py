"""bv - bounded exhaustive exploration of the bacpypes working tree.

Importing this package puts /repo/py34 (the working tree, never the copy
installed in /venv) at the front of sys.path and verifies that bacpypes really
comes from there.
"""
import os
import sys

REPO = os.environ.get("BV_REPO", "/repo")
TREE = os.path.join(REPO, "py34")
VERIF = os.path.dirname(os.path.dirname(os.path.abspath(__file__)))

if TREE not in sys.path:
    sys.path.insert(0, TREE)

import bacpypes  # noqa: E402

_where = os.path.realpath(os.path.dirname(bacpypes.__file__))
if not _where.startswith(os.path.realpath(TREE)):
    raise ImportError("bacpypes imported from %s, not from the working tree %s" % (_where, TREE))
