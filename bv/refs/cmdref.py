"""Reference model of BACnet command prioritization (clause 19.2) -- independent of bacpypes.

A commandable property has a priority array of 16 slots, each NULL or a value.
    present value = value of the lowest-numbered non-NULL slot, else the relinquish default
    a command (write or relinquish) at priority p in 1..16 replaces slot p, nothing else
    a command without priority is a command at priority 16
    a command with a priority outside 1..16, or a write to array element 0 (the length) or to an
    element > 16, is refused and changes nothing
    a write whose value is not a value of the property's datatype (an enumeration number or name the
    enumeration does not define, a value of another datatype, a number outside the range of the type)
    is not a command: it is refused and changes nothing, whatever the priority and the state
    a write to array element k in 1..16: the standard makes Priority_Array read-only (refuse), an
    implementation may take it as the command "value / NULL at priority k"; both are allowed here,
    nothing else is (CmdRef.optional_array_element)

Replacement of the priority array as a whole (an application clears all commands in one go, or puts saved
commanded state back): from then on the slots are those of the new array and every later command lands in
it.  The replacement itself is not a write or relinquish, so nothing is demanded of the present value right
after it (`snapshot()` gives UNSPECIFIED for it: it may still be the old value or already follow the new
array); from the next accepted command on the rule "lowest-numbered non-NULL slot, else the default" holds
again in full.  Not modelled together with minimum on/off times.

Change-of-value subscriptions (clause 13.1) observe an object; they command nothing.  No subscription
event (subscribe, renew, cancel, lifetime running out) appears in this model: the command state of an
object with subscribers is the command state of the same object without.  `SubscriptionBook` only
keeps the harness' own account of what it asked for (so that histories which differ in it are
explored separately); it has no influence on CmdRef.

Minimum on / minimum off time (clause 19.2.3, binary objects):
    whenever the present value changes to a NEW state S at time t, slot 6 is set to S and kept for
    T(S) seconds, T(ACTIVE) = minimum ON time, T(INACTIVE) = minimum OFF time; at t + T(S) slot 6 is
    released (NULL) and the present value is recomputed (which may itself be a new state).  T(S) == 0
    or absent: nothing is held.  A newer hold replaces an older one (there is one slot 6 and one timer).

Nothing in this file imports or calls the code under test.  Values are opaque hashable Python
objects; the per-class tables below say which value domain and which BACnetPriorityValue choice the
standard gives each commandable object type (clause 12.x present-value datatype, clause 21
BACnetPriorityValue).
"""

NULL = ("NULL",)            # the one null marker (distinct from every value, including falsy ones)
UNSPECIFIED = ("UNSPECIFIED",)      # present value the statement says nothing about (right after a whole-array replacement)

ACTIVE = 1                  # BACnetBinaryPV
INACTIVE = 0


class Refused(Exception):
    """The reference refuses the command (nothing changed)."""


class CmdRef(object):
    def __init__(self, relinquish_default, min_on=0, min_off=0):
        self.slots = [NULL] * 17            # [0] unused; 1..16
        self.rd = relinquish_default
        self.pv = relinquish_default        # all slots NULL -> the default
        self.min_on = min_on or 0
        self.min_off = min_off or 0
        self.now = 0
        self.hold_until = None              # absolute time slot 6 is released by the min on/off mechanism
        self.pv_free = False                # the array was replaced as a whole and no command has followed yet

    # -- pure functions of the state
    def winner(self):
        for i in range(1, 17):
            if self.slots[i] is not NULL:
                return self.slots[i]
        return self.rd

    def snapshot(self):
        """(slots 1..16, present value, relinquish default)"""
        return (tuple(self.slots[1:]), UNSPECIFIED if self.pv_free else self.pv, self.rd)

    def pending(self):
        """seconds until the pending slot-6 release, or None"""
        return None if self.hold_until is None else self.hold_until - self.now

    # -- commands
    @staticmethod
    def is_refused(priority=None, array_index=None, via_array=False):
        """True iff the standard refuses this form outright.
        via_array=False: write of the commandable property with `priority` (None = absent = 16)
        via_array=True : write of priority-array element `array_index`"""
        if via_array:
            return not (isinstance(array_index, int) and 1 <= array_index <= 16)
        if priority is None:
            return False
        return not (isinstance(priority, int) and 1 <= priority <= 16)

    def command(self, value, priority=None):
        """Write `value` (or NULL = relinquish) at `priority`."""
        if self.is_refused(priority=priority):
            raise Refused("priority %r" % (priority,))
        p = 16 if priority is None else priority
        self.slots[p] = value
        self._recompute()

    def write_array_element(self, array_index, value):
        if self.is_refused(array_index=array_index, via_array=True):
            raise Refused("array index %r" % (array_index,))
        self.slots[array_index] = value
        self._recompute()

    def command_invalid(self, kind, priority=None):
        """A write of something that is not a value of the datatype (see INVALID): never a command."""
        raise Refused("invalid value (%s)" % (kind,))

    def optional_array_element(self, array_index, value, accepted):
        """Write of priority-array element 1..16, where refusing (read-only property) and taking it as a
        command at that priority are both conforming: `accepted` says which of the two the device
        under observation answered; the state follows that answer and nothing else."""
        if self.is_refused(array_index=array_index, via_array=True):
            raise Refused("array index %r" % (array_index,))
        if accepted:
            self.slots[array_index] = value
            self._recompute()

    def array_content(self, content, slot=None, value=None):
        """16 slots of a whole new array: "copy" (what the array holds now), "clear" (all NULL),
        "one" (all NULL but `slot` = `value`)"""
        if content == "copy":
            return tuple(self.slots[1:])
        new = [NULL] * 16
        if content == "one":
            new[slot - 1] = value
        elif content != "clear":
            raise ValueError(content)
        return tuple(new)

    def replace_array(self, slots16):
        """The priority array is replaced as a whole (not modelled together with minimum on/off times)."""
        if len(slots16) != 16:
            raise ValueError("a priority array has 16 slots")
        self.slots = [NULL] + list(slots16)
        self.pv_free = True

    def _recompute(self):
        new = self.winner()
        if self.pv_free:                    # first command after a replacement: the rule holds again
            self.pv_free = False
            self.pv = new
            return
        if new == self.pv:
            return
        self.pv = new
        # a NEW state: minimum on / off hold
        if self.min_on or self.min_off:
            hold = self.min_on if new == ACTIVE else self.min_off
            if hold:
                self.slots[6] = new
                self.hold_until = self.now + hold

    def advance(self, seconds=1):
        """Let `seconds` pass in steps of one second (all times are whole seconds)."""
        for _ in range(seconds):
            self.now += 1
            if self.hold_until is not None and self.hold_until <= self.now:
                self.hold_until = None
                self.slots[6] = NULL
                self._recompute()


class SubscriptionBook(object):
    """What the harness asked a device for, for ONE subscriber of ONE object (clause 13.14 SubscribeCOV):
    status 'never' (no subscription was ever made), ('active', seconds to live | None = indefinite,
    confirmed notifications?), 'ended' (the last subscription was cancelled or ran out).  Whole seconds."""

    def __init__(self):
        self.ever = False
        self.alive = False
        self.ttl = None
        self.confirmed = False

    def subscribe(self, lifetime, confirmed=False):
        """new subscription or renewal; lifetime 0 / None = indefinite"""
        self.ever = True
        self.alive = True
        self.ttl = lifetime or None
        self.confirmed = bool(confirmed)

    def cancel(self):
        self.alive = False
        self.ttl = None

    def advance(self, seconds=1):
        for _ in range(seconds):
            if self.alive and self.ttl is not None:
                self.ttl -= 1
                if self.ttl <= 0:
                    self.alive = False
                    self.ttl = None

    def status(self):
        if self.alive:
            return ("active", self.ttl, self.confirmed)
        return "ended" if self.ever else "never"

    def count(self):
        return 1 if self.alive else 0


# --------------------------------------------------------------------------------------------------
# The 20 commandable object types: BACnetPriorityValue choice and value domain, from the standard.
# name of the bacpypes class (looked up by the harness), object type, choice, domain

DOOR = {"lock": 0, "unlock": 1, "pulseUnlock": 2, "extendedPulseUnlock": 3}      # BACnetDoorValue
BINARY = {"inactive": 0, "active": 1}                                            # BACnetBinaryPV

#            class name                        choice             domain
CLASSES = [
    ("AnalogValueCmdObject",           "real",            "real"),
    ("BinaryOutputCmdObject",          "enumerated",      "binary"),
    ("MultiStateValueCmdObject",       "unsigned",        "unsigned"),
    ("CharacterStringValueCmdObject",  "characterString", "chars"),
    ("DateValueCmdObject",             "date",            "date"),
    ("IntegerValueCmdObject",          "integer",         "integer"),
    ("AnalogOutputCmdObject",          "real",            "real"),
    ("BinaryValueCmdObject",           "enumerated",      "binary"),
    ("AccessDoorCmdObject",            "enumerated",      "door"),
    ("LargeAnalogValueCmdObject",      "double",          "double"),
    ("TimeValueCmdObject",             "time",            "time"),
    ("OctetStringValueCmdObject",      "octetString",     "octets"),
    ("BitStringValueCmdObject",        "bitString",       "bits"),
    ("DateTimeValueCmdObject",         "datetime",        "datetime"),
    ("MultiStateOutputCmdObject",      "unsigned",        "unsigned"),
    ("PositiveIntegerValueCmdObject",  "unsigned",        "unsigned"),
    ("LightingOutputCmdObject",        "real",            "real"),
    ("DatePatternValueCmdObject",      "date",            "date"),
    ("TimePatternValueCmdObject",      "time",            "time"),
    ("DateTimePatternValueCmdObject",  "datetime",        "datetime"),
]

# Per domain: relinquish default (distinct from the type's zero value and from every commanded value)
# and three commanded values (one of them falsy / the type's zero where the type has one).
# Values are abstract: numbers, strings, bytes, tuples.  Enumerations are their numeric value.
# real values are exactly representable in IEEE single precision (they cross the wire as REAL).
DOMAINS = {
    "real":     {"default": 7.0,  "values": [1.5, 0.0, -2.25]},
    "double":   {"default": 7.0,  "values": [1.5, 0.0, -1e100]},
    "binary":   {"default": 0,    "values": [1, 0]},                     # only two states exist
    "door":     {"default": 3,    "values": [1, 0, 2]},
    "unsigned": {"default": 5,    "values": [1, 0, 70000]},
    "integer":  {"default": 5,    "values": [-1, 0, 70000]},
    "chars":    {"default": "dflt", "values": ["a", "", "žluť"]},
    "octets":   {"default": b"d", "values": [b"\x01", b"", b"\xff\x00"]},
    "bits":     {"default": (0,), "values": [(1,), (), (0, 1, 1, 0, 1, 0, 1, 1, 1)]},
    # (year-1900, month, day, day-of-week), 255 = unspecified
    "date":     {"default": (100, 1, 1, 6), "values": [(120, 2, 29, 6), (255, 255, 255, 255), (99, 12, 31, 5)]},
    # (hour, minute, second, hundredths)
    "time":     {"default": (12, 0, 0, 0), "values": [(1, 2, 3, 4), (255, 255, 255, 255), (23, 59, 59, 99)]},
    # (date, time)
    "datetime": {"default": ((100, 1, 1, 6), (12, 0, 0, 0)),
                 "values": [((120, 2, 29, 6), (1, 2, 3, 4)), ((255, 255, 255, 255), (255, 255, 255, 255)),
                            ((99, 12, 31, 5), (23, 59, 59, 99))]},
}

# Per domain: things that are NOT values of the datatype, as (kind, (datatype tag, content)).
#   the datatype tag names the BACnet application datatype the content is a value of ("enum" = an
#   Enumerated number); a harness sends it tagged that way over the wire and hands the bare content to a
#   programming interface.  kind: "undefined-enumeration-value" (a number the enumeration does not define:
#   BACnetBinaryPV has 0..1, BACnetDoorValue 0..3), "undefined-enumeration-name", "wrong-datatype",
#   "out-of-range" (a negative number for an unsigned type; on the wire it can only travel as a signed
#   integer, i.e. as a wrong datatype; likewise an undefined enumeration *name* travels as a character
#   string).
# Chosen so that no content is, in any spelling, a value of the domain it is listed under.
INVALID = {
    "real":     [("wrong-datatype", ("chars", "on")), ("wrong-datatype", ("octets", b"x"))],
    "double":   [("wrong-datatype", ("chars", "on")), ("wrong-datatype", ("octets", b"x"))],
    "binary":   [("undefined-enumeration-value", ("enum", 7)), ("undefined-enumeration-name", ("chars", "on")),
                 ("wrong-datatype", ("real", 2.5))],
    "door":     [("undefined-enumeration-value", ("enum", 9)), ("undefined-enumeration-name", ("chars", "on")),
                 ("wrong-datatype", ("real", 2.5))],
    "unsigned": [("wrong-datatype", ("chars", "on")), ("out-of-range", ("integer", -1))],
    "integer":  [("wrong-datatype", ("chars", "on")), ("wrong-datatype", ("real", 2.5))],
    "chars":    [("wrong-datatype", ("real", 2.5)), ("wrong-datatype", ("unsigned", 3))],
    "octets":   [("wrong-datatype", ("chars", "on")), ("wrong-datatype", ("unsigned", 3))],
    "bits":     [("wrong-datatype", ("chars", "on")), ("wrong-datatype", ("unsigned", 3))],
    "date":     [("wrong-datatype", ("chars", "on")), ("wrong-datatype", ("unsigned", 3))],
    "time":     [("wrong-datatype", ("chars", "on")), ("wrong-datatype", ("unsigned", 3))],
    "datetime": [("wrong-datatype", ("chars", "on")), ("wrong-datatype", ("date", (100, 1, 1, 6)))],
}
