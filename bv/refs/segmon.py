"""Segmentation rules of clause 5.2 / 5.4 checked on the event log of an S-APP execution.

Independent of bacpypes: works on octets parsed by ssmwire.  The absolute index of a segment is
recovered from its *content* (the payload stream is position dependent), so sequence numbers are judged
against what the segment really carries.
"""
from . import ssmwire


def private_transfer_data(sn, payload, vendor=999):
    """Service data of ConfirmedPrivateTransfer request / ack as clause 20.2 prescribes (hand encoding)."""
    out = bytearray()
    out += bytes([0x0A, (vendor >> 8) & 0xFF, vendor & 0xFF]) if vendor > 255 else bytes([0x09, vendor])
    out += bytes([0x19, sn])
    out.append(0x2E)
    n = len(payload)
    if n < 5:
        out.append(0x60 | n)
    elif n < 254:
        out += bytes([0x65, n])
    elif n < 65536:
        out += bytes([0x65, 254, n >> 8, n & 0xFF])
    else:
        out += bytes([0x65, 255]) + n.to_bytes(4, "big")
    out += payload
    out.append(0x2F)
    return bytes(out)


class Transfer(object):
    """One direction of one transaction: sender mac, apdu type of the data segments (0 request / 3 complex ack)."""

    def __init__(self, sender, receiver, apdu_type, invoke, full, seg_size=None):
        self.sender = sender
        self.receiver = receiver
        self.apdu_type = apdu_type
        self.invoke = invoke
        self.full = full
        self.seg_size = seg_size    # learned from the first segment when not given
        self.count = 1 if not seg_size else max(1, (len(full) + seg_size - 1) // seg_size)
        self.highest_sent = -1
        self.acked_upto = -1        # highest absolute index acknowledged *to the sender*
        self.window = 1             # before the first SegmentACK only segment 0 may be outstanding
        self.delivered = set()      # absolute indexes delivered to the receiver
        self.problems = []

    def index_of(self, a):
        """absolute segment index from content; None if the content is not a slice at a segment boundary"""
        chunk = a["payload"]
        if not a["seg"]:
            return 0 if chunk == self.full else None
        if self.seg_size is None:
            # the first segment defines the slice size (its length is judged under C12, not here)
            if a["seq"] == 0 and chunk and self.full.startswith(chunk):
                self.seg_size = len(chunk)
                self.count = max(1, (len(self.full) + self.seg_size - 1) // self.seg_size)
            else:
                return None
        if not chunk and self.count > 1:
            return None
        cands = [i for i in range(a["seq"], self.count, 256)
                 if self.full[i * self.seg_size:(i + 1) * self.seg_size] == chunk]
        if cands:
            return cands[0] if len(cands) == 1 else min(cands, key=lambda i: abs(i - (self.highest_sent + 1)))
        # content does not belong where the sequence number says: locate it anywhere
        pos = self.full.find(chunk)
        if pos >= 0 and pos % self.seg_size == 0:
            return ("misnumbered", pos // self.seg_size)
        return None

    def on_emit_data(self, a, t):
        idx = self.index_of(a)
        if idx is None:
            self.problems.append(("segment-content-not-a-slice-of-the-message", {"seq": a["seq"], "t": t, "len": len(a["payload"])}))
            return
        if isinstance(idx, tuple):
            self.problems.append(("sequence-number-not-index-mod-256", {"seq": a["seq"], "index": idx[1], "t": t}))
            return
        if a["seg"]:
            if a["seq"] != idx % 256:
                self.problems.append(("sequence-number-not-index-mod-256", {"seq": a["seq"], "index": idx}))
            if a["mor"] != (idx < self.count - 1):
                self.problems.append(("more-follows-flag-wrong", {"index": idx, "count": self.count, "mor": a["mor"]}))
            if not (1 <= a["win"] <= 127):
                self.problems.append(("window-octet-out-of-range", {"win": a["win"], "index": idx}))
        if idx > self.highest_sent + 1:
            self.problems.append(("first-transmissions-not-consecutive", {"index": idx, "highest_sent": self.highest_sent}))
        if idx > self.acked_upto + self.window:
            self.problems.append(("more-unacknowledged-segments-than-window",
                                  {"index": idx, "acked_upto": self.acked_upto, "window": self.window}))
        self.highest_sent = max(self.highest_sent, idx)

    def on_deliver_data(self, a):
        idx = self.index_of(a)
        if isinstance(idx, int):
            self.delivered.add(idx)

    def on_emit_ack(self, a, t):
        # an ack names a sequence number of a segment that reached the receiver
        if not (1 <= a["win"] <= 127):
            self.problems.append(("window-octet-out-of-range", {"win": a["win"], "ack": a["seq"]}))
        if not any(i % 256 == a["seq"] for i in self.delivered) and not (a["seq"] == 0 and not self.delivered):
            self.problems.append(("ack-names-sequence-number-never-received", {"seq": a["seq"], "delivered": sorted(self.delivered)[-4:]}))

    def on_deliver_ack(self, a):
        # resolve to the absolute index: the largest index <= highest_sent congruent to seq
        cands = [i for i in range(a["seq"], self.highest_sent + 1, 256)]
        if not cands:
            return
        ab = cands[-1]
        if ab >= self.acked_upto:
            self.acked_upto = ab
            self.window = a["win"]


def monitor(events, transfers):
    """events: the causal log of an AppSystem; transfers: list of Transfer.  Returns list of problems."""
    by_key = {}
    for tr in transfers:
        by_key[(tr.sender, tr.apdu_type, tr.invoke)] = tr
    by_ack = {}
    for tr in transfers:
        # acks for a request transfer (type 0) come from the server (srv=1); for a response (type 3) from the client (srv=0)
        by_ack[(tr.receiver, tr.apdu_type == 0, tr.invoke)] = tr
    for ev in events:
        kind = ev[0]
        if kind not in ("emit", "dlv"):
            continue
        if kind == "emit":
            t, src, dst, data = ev[1], ev[2], ev[3], ev[4]
        else:
            t, dst, src, data = ev[1], ev[2], ev[3], ev[4]
        try:
            n, a = ssmwire.parse_frame(data)
        except ssmwire.WireError:
            continue
        if a is None:
            continue
        if a["type"] in (0, 3):
            tr = by_key.get((src, a["type"], a["invoke"]))
            if tr is None:
                continue
            if kind == "emit":
                tr.on_emit_data(a, t)
            else:
                tr.on_deliver_data(a)
        elif a["type"] == 4:
            tr = by_ack.get((src, bool(a["srv"]), a["invoke"]))
            if tr is None:
                continue
            if kind == "emit":
                tr.on_emit_ack(a, t)
            else:
                tr.on_deliver_ack(a)
    out = []
    for tr in transfers:
        for p, d in tr.problems:
            d = dict(d)
            d["transfer"] = "request" if tr.apdu_type == 0 else "response"
            out.append((p, d))
    return out
