"""Reference for C13: BACnet/IP broadcast distribution (Annex J.4.5) and foreign-device lifetimes (J.5.2).

Pure Python, no bacpypes import.  Three pieces:

* `parse_bvll(octets)`   - a small Annex J.2 frame parser (the wire monitor of the check uses it, so that
                           what the oracle believes about the wire does not come from the code under test);
* `Topology.receivers()` - J.4.5 written as set algebra: who must be handed a broadcast originated by X given
                           the subnets, the broadcast distribution tables and the foreign device tables;
* `Lifetime`             - the lifetime rules of the property statement for one foreign device, fed with
                           *observed* facts (application calls, datagrams seen on the wire) and queried for
                           "must / may / mustnot" be served (= receive broadcasts) and be listed.
"""
import struct

GRACE = 30.0            # J.5.2.3: an entry is kept TTL + 30 s
EPS = 1e-3              # boundary instants themselves are not judged

RESULT, WRITE_BDT, READ_BDT, READ_BDT_ACK, FORWARDED, REGISTER_FD, READ_FDT, READ_FDT_ACK, DELETE_FDT, DISTRIBUTE, \
    ORIGINAL_UNICAST, ORIGINAL_BROADCAST = range(12)

NAMES = ("Result", "Write-BDT", "Read-BDT", "Read-BDT-Ack", "Forwarded-NPDU", "Register-FD", "Read-FDT", "Read-FDT-Ack",
         "Delete-FDT-Entry", "Distribute-Broadcast", "Original-Unicast", "Original-Broadcast")


class BvllError(ValueError):
    pass


def _addr(b):
    """6 octets -> 'a.b.c.d:port'"""
    return "%d.%d.%d.%d:%d" % (b[0], b[1], b[2], b[3], (b[4] << 8) | b[5])


def parse_bvll(data):
    """Annex J.2: type X'81', function, 2-octet length (whole message), function-specific rest."""
    data = bytes(data)
    if len(data) < 4:
        raise BvllError("shorter than a BVLC header")
    if data[0] != 0x81:
        raise BvllError("BVLC type %#x" % data[0])
    fn = data[1]
    (length,) = struct.unpack(">H", data[2:4])
    if length != len(data):
        raise BvllError("BVLC length %d, datagram %d" % (length, len(data)))
    if fn >= len(NAMES):
        raise BvllError("BVLC function %d" % fn)
    rest = data[4:]
    out = {"fn": fn, "name": NAMES[fn]}
    if fn == RESULT:
        if len(rest) != 2:
            raise BvllError("Result length")
        out["code"] = (rest[0] << 8) | rest[1]
    elif fn == FORWARDED:
        if len(rest) < 6:
            raise BvllError("Forwarded-NPDU without origin")
        out["origin"] = _addr(rest[:6])
        out["npdu"] = rest[6:]
    elif fn == REGISTER_FD:
        if len(rest) != 2:
            raise BvllError("Register-FD length")
        out["ttl"] = (rest[0] << 8) | rest[1]
    elif fn == READ_FDT_ACK:
        if len(rest) % 10:
            raise BvllError("Read-FDT-Ack length")
        out["fdt"] = [(_addr(rest[i:i + 6]), (rest[i + 6] << 8) | rest[i + 7], (rest[i + 8] << 8) | rest[i + 9])
                      for i in range(0, len(rest), 10)]
    elif fn == DELETE_FDT:
        if len(rest) != 6:
            raise BvllError("Delete-FDT-Entry length")
        out["entry"] = _addr(rest)
    elif fn in (DISTRIBUTE, ORIGINAL_UNICAST, ORIGINAL_BROADCAST):
        out["npdu"] = rest
    return out


def split_npdu(octets):
    """Clause 6.2.2: version, control, [DNET DLEN DADR] [SNET SLEN SADR] [hop count] then a network message or an APDU.
    Returns {"dnet", "dadr", "snet", "sadr", "hops", "apdu"}; "apdu" is None for a network layer message."""
    b = bytes(octets)
    if len(b) < 2 or b[0] != 0x01:
        raise BvllError("not a version 1 NPDU")
    ctl = b[1]
    i = 2
    out = {"dnet": None, "dadr": None, "snet": None, "sadr": None, "hops": None, "apdu": None}
    if ctl & 0x20:
        if len(b) < i + 3:
            raise BvllError("NPDU ends inside DNET/DLEN")
        out["dnet"] = (b[i] << 8) | b[i + 1]
        n = b[i + 2]
        out["dadr"] = b[i + 3:i + 3 + n]
        i += 3 + n
    if ctl & 0x08:
        if len(b) < i + 3:
            raise BvllError("NPDU ends inside SNET/SLEN")
        out["snet"] = (b[i] << 8) | b[i + 1]
        n = b[i + 2]
        out["sadr"] = b[i + 3:i + 3 + n]
        i += 3 + n
    if ctl & 0x20:
        if len(b) < i + 1:
            raise BvllError("NPDU ends before the hop count")
        out["hops"] = b[i]
        i += 1
    if len(b) < i:
        raise BvllError("NPDU shorter than its header")
    if not ctl & 0x80:
        out["apdu"] = b[i:]
    return out


# --------------------------------------------------------------------------------------- J.4.5 as set algebra

class Topology(object):
    """subnets:  {subnet id: [node id, ...]}            every B/IP node incl. the BBMD of the subnet
       bbmd_of:  {subnet id: node id}                    subnets that have a BBMD
       bdt:      {bbmd node id: [peer bbmd node id,...]} the BBMD itself may or may not be in its own list
       foreign:  set of node ids that are foreign devices (they are NOT in `subnets`)
       wire_of:  {foreign node id: subnet id}            foreign devices whose IP address lies on a subnet of the B/IP
                                                         network (next to its BBMD and ordinary nodes); the others sit
                                                         on subnets of their own
       onehop:   set of BBMDs that are entered in the tables with a subnet mask (reached by directed broadcast)

    Whether a peer is reached by unicast (mask /32, the peer re-broadcasts on its subnet: "two-hop") or by a
    directed broadcast (subnet mask, "one-hop") makes no difference to *who* receives (J.4.5), only to the path.

    A foreign device takes part in the B/IP network through the BBMD it is registered with and through nobody else
    (J.5.2): it is not a member of the subnet it happens to sit on, so `subnets` does not list it and what other
    stations broadcast on that wire is not addressed to it.  The path matters in one respect only: datagrams that
    carry the registrar's own address as source and arrive at the device beside the copy from the foreign device
    table cannot be told from that copy (`registrar_copies`).
    """

    def __init__(self, subnets, bbmd_of, bdt, foreign, wire_of=None, onehop=()):
        self.subnets = {s: list(n) for s, n in subnets.items()}
        self.bbmd_of = dict(bbmd_of)
        self.bdt = {b: list(p) for b, p in bdt.items()}
        self.foreign = set(foreign)
        self.wire_of = dict(wire_of or {})
        self.onehop = set(onehop)
        self.subnet_of = {}
        for s, nodes in self.subnets.items():
            for n in nodes:
                self.subnet_of[n] = s
        self.home_subnet = {b: s for s, b in self.bbmd_of.items()}

    def describe(self):
        """plain comparable form"""
        return (sorted((s, tuple(n)) for s, n in self.subnets.items()), sorted(self.bbmd_of.items()),
                sorted((b, tuple(p)) for b, p in self.bdt.items()), sorted(self.foreign), sorted(self.wire_of.items()),
                sorted(self.onehop))

    def all_nodes(self):
        out = set(self.foreign)
        for nodes in self.subnets.values():
            out.update(nodes)
        return out

    def receivers(self, origin, fdt):
        """Set of nodes whose network layer must be handed one copy of a broadcast originated by `origin`.

        fdt: {bbmd node id: set of foreign node ids that bbmd currently serves}.
        Returns None when the standard/statement does not decide (a foreign originator no BBMD serves)."""
        if origin in self.foreign:
            homes = [b for b, fds in sorted(fdt.items()) if origin in fds]
            if not homes:
                return None
            b = homes[0]
            # J.4.5: Distribute-Broadcast-To-Network -> Forwarded-NPDU on the BBMD's own subnet (the BBMD itself is a
            # B/IP node too), to every BDT peer, to every *other* foreign device
            got = set(self.subnets[self.home_subnet[b]])
        else:
            s = self.subnet_of[origin]
            # the Original-Broadcast-NPDU reaches the originator's own subnet directly
            got = set(self.subnets[s])
            b = self.bbmd_of.get(s)
            if b is None:
                return got - {origin}
        got |= set(fdt.get(b, ()))
        for p in self.bdt.get(b, ()):
            if p == b:
                continue
            # one Forwarded-NPDU per table entry; a Forwarded-NPDU is never forwarded to a BBMD again
            got |= set(self.subnets[self.home_subnet[p]])
            got |= set(fdt.get(p, ()))
        return got - {origin}

    def copies(self, origin, fdt):
        """Multiset version (how many copies the algebra produces per node): used to confirm that a layout is inside
        the statement (every expected receiver exactly once, nothing back to the originator)."""
        from collections import Counter
        c = Counter()
        if origin in self.foreign:
            homes = [b for b, fds in sorted(fdt.items()) if origin in fds]
            if not homes:
                return None
            b = homes[0]
            c.update(self.subnets[self.home_subnet[b]])
        else:
            s = self.subnet_of[origin]
            c.update(self.subnets[s])
            b = self.bbmd_of.get(s)
            if b is None:
                del c[origin]
                return c
        c.update(fdt.get(b, ()))
        for p in self.bdt.get(b, ()):
            if p == b:
                continue
            c.update(self.subnets[self.home_subnet[p]])
            c.update(fdt.get(p, ()))
        c.pop(origin, None)
        # datagrams a foreign device on a wire of the B/IP network gets from its registrar beside the table copy
        # (for the originator itself: its own broadcast coming back)
        for f, extra in self.registrar_copies(origin, b, fdt).items():
            c[f] += extra
        return c

    def registrar_copies(self, origin, first, fdt):
        """{foreign device on a wire: number of Forwarded-NPDUs with its registrar's address as source that reach its
        interface *beside* the unicast copy from the foreign device table}.  `first` is the BBMD that starts the
        distribution (the originator's own BBMD).  Two ways:
          * the registrar is the BBMD of the device's own wire and puts a Forwarded-NPDU on that wire (it forwards a
            Distribute-Broadcast-To-Network, or it is the second hop of a two-hop entry);
          * the registrar starts the distribution and lists the BBMD of the device's wire with a subnet mask: its
            directed broadcast arrives on the device's wire with the registrar as source.
        A layout in which this is not zero is outside the statement: Annex J itself hands the device two copies (or its
        own broadcast)."""
        out = {}
        for f, s in sorted(self.wire_of.items()):
            w = self.bbmd_of.get(s)
            n = 0
            for r, fds in sorted(fdt.items()):
                if f not in fds or w is None:
                    continue
                if r == w:
                    if r == first:
                        # forwards on its own wire only what did not start there as an Original-Broadcast
                        n += 1 if origin in self.foreign else 0
                    elif r in self.bdt.get(first, ()) and r not in self.onehop and r in self.bdt.get(r, ()):
                        n += 1
                elif r == first and w in self.bdt.get(r, ()) and w in self.onehop:
                    n += 1
            if n:
                out[f] = n
        return out

    def inside_statement(self, fdt):
        """True when Annex J hands every receiver exactly one copy and the originator none, for every originator"""
        for origin in sorted(self.all_nodes()):
            c = self.copies(origin, fdt)
            if c is None:
                continue
            if c.get(origin) or any(v != 1 for v in c.values()):
                return False
        return True

    def is_full(self):
        """Every subnet has a BBMD and every BBMD lists all the others (the first sentence of the statement)."""
        bbmds = set(self.bbmd_of.values())
        if set(self.bbmd_of) != set(self.subnets):
            return False
        return all(set(self.bdt.get(b, ())) | {b} == bbmds for b in bbmds)


# --------------------------------------------------------------------------------------- lifetimes

def unlisted_sender_rule(datagrams, sender, payload, registered):
    """A Distribute-Broadcast-To-Network from a device the BBMD does not (any longer) have in its table - the entry was
    deleted (the device is not told), or the BBMD dropped it while the device still waits for its own timeout.

    J.4.5: "Upon receipt of a BVLL Distribute-Broadcast-To-Network message from a foreign device, the receiving BBMD shall
    transmit a BVLL Forwarded-NPDU message on its local IP subnet [...] In addition, a Forwarded-NPDU message shall be sent
    to each entry in its BDT [...] as well as directly to each foreign device currently in the BBMD's FDT except the
    originating node.  If the BBMD is unable to perform the forwarding function, it shall return a BVLC-Result message to
    the foreign device with a result code of X'0060'".  Whether a sender without a table entry is "a foreign device" for this
    clause is not decided by the statement (later revisions of the standard have the BBMD refuse it), so both are taken:
    the BBMD distributes nothing, or it performs the forwarding function - and the forwarding function includes every
    device currently in the table.  What no reading allows is a distribution that leaves out a registered device: "a
    foreign device is served from the moment its registration is acknowledged for at least its time-to-live" holds for
    every broadcast the BBMD distributes.

        datagrams   [(source address, destination address, octets)] put on the wires since the broadcast was originated
        sender      address of the originating device ('a.b.c.d:port'), payload: the NPDU octets it handed down
        registered  {address of the BBMD: set of addresses of the foreign devices (other than the sender) that are
                    registered with it, acknowledged and inside their time-to-live}

    -> (BBMDs the sender addressed, BBMDs among them that distributed, {BBMD: registered devices it sent no
       Forwarded-NPDU to}); the last is empty when the rule holds.  Delivery above the device's B/IP layer (exactly one
       copy) is judged by the caller from the recorders."""
    asked, acted, missed = [], [], {}
    for (src, dst, data) in datagrams:
        m = parse_bvll(data)
        if m["fn"] == DISTRIBUTE and src == sender and m["npdu"] == payload and dst in registered and dst not in asked:
            asked.append(dst)
    for b in asked:
        to = set(dst for (src, dst, data) in datagrams
                 if src == b and parse_bvll(data)["fn"] == FORWARDED and parse_bvll(data)["npdu"] == payload
                 and parse_bvll(data)["origin"] == sender)
        if to:
            acted.append(b)
            left_out = sorted(registered[b] - to)
            if left_out:
                missed[b] = left_out
    return asked, acted, missed


class Lifetime(object):
    """Lifetime rules of the statement for ONE foreign device.

    Facts (all with the virtual time at which they were observed):
      app_register(t, bbmd, ttl)   the application asked for a registration (renewed by the device from now on)
      app_unregister(t)            the application asked to unregister
      reg_sent(t, bbmd, ttl)       a Register-Foreign-Device datagram left the device
      acked(t, bbmd)               a Result(0) from that BBMD was delivered to the device (answers the oldest open request)
      nak(t, bbmd)                 a Result(!=0) was delivered
      deleted(t, bbmd)             a Delete-Foreign-Device-Table-Entry for the device was executed at the BBMD
    Queries:  served(t) / listed(t, bbmd) -> "must" | "may" | "mustnot",  renewal_overdue(t) -> bool
    """

    def __init__(self, grace=GRACE):
        self.grace = grace
        self.mode = "never"         # never | wanted | unregistered
        self.bbmd = None            # BBMD of the latest application request
        self.ttl = None
        self.open = {}              # bbmd -> [ttl of requests not yet answered]
        self.rec = {}               # bbmd -> [t_ack, ttl, deleted, released]
        self.last_reg = None        # (t, ttl) of the latest Register-Foreign-Device seen leaving the device
        self.t_unreg = None

    # ---- facts
    def app_register(self, t, bbmd, ttl):
        self.mode = "wanted"
        self.bbmd = bbmd
        self.ttl = ttl
        self.t_unreg = None
        self.last_reg = None        # the device has to send one at once
        # the application moved the registration to another BBMD: what the other BBMDs acknowledged earlier obliges
        # nobody any more (they may keep their entry until its own TTL + grace is over, as after an unregistration)
        for b, r in self.rec.items():
            if b != bbmd:
                r[3] = True

    def app_unregister(self, t):
        self.mode = "unregistered"
        self.t_unreg = t
        # the device gave up what it had: no acknowledgement received so far obliges anybody any more (the BBMD may
        # keep the entry until its own TTL + grace is over, e.g. when the unregistration request is lost)
        for r in self.rec.values():
            r[3] = True

    def reg_sent(self, t, bbmd, ttl):
        self.open.setdefault(bbmd, []).append(ttl)
        if ttl:
            self.last_reg = (t, ttl)

    def reg_lost(self, bbmd):
        """the newest open request was lost on the way (it will never be answered)"""
        q = self.open.get(bbmd)
        if q:
            q.pop()

    def acked(self, t, bbmd):
        q = self.open.get(bbmd)
        if not q:
            return False            # a Result nobody asked for: not a registration acknowledgement
        ttl = q.pop(0)
        self.rec[bbmd] = [t, ttl, False, False]
        return True

    def nak(self, t, bbmd):
        q = self.open.get(bbmd)
        if q:
            q.pop(0)

    def deleted(self, t, bbmd):
        r = self.rec.get(bbmd)
        if r is not None:
            r[2] = True

    # ---- queries
    def _window(self, t, bbmd):
        r = self.rec.get(bbmd)
        if r is None or r[2]:
            return "mustnot"        # never acknowledged, or the entry was deleted since ("stops at once")
        t_ack, ttl, _, released = r
        if t < t_ack + ttl - EPS:
            # "served from the moment its registration is acknowledged for at least its TTL"
            return "may" if released else "must"
        if t <= t_ack + ttl + self.grace + EPS:
            return "may"
        return "mustnot"            # "stops being served and listed once the TTL plus grace has elapsed without renewal"

    def why(self, t, bbmd=None):
        """short reason for a 'mustnot' (used in failure signatures)"""
        if bbmd is None:
            if self.mode == "never":
                return "never-registered"
            if self.mode == "unregistered":
                return "unregistered"
            bbmd = self.bbmd
        r = self.rec.get(bbmd)
        if r is None:
            return "never-acknowledged"
        if r[2]:
            return "entry-deleted"
        if r[1] == 0:
            return "unregistered-grace-over"
        return "ttl+grace-elapsed"

    def served(self, t):
        """does the device receive broadcasts (through the BBMD of its latest request)"""
        if self.mode == "never":
            return "mustnot"
        if self.mode == "unregistered":
            return "mustnot"        # "after unregister nothing is handed to its network layer"
        w = self._window(t, self.bbmd)
        if w == "mustnot" and any(b != self.bbmd and self._window(t, b) != "mustnot" for b in self.rec):
            # the device moved its registration here from a BBMD whose entry has not run out yet: the statement speaks
            # of one registration, it does not decide whether that older entry still serves the device
            return "may"
        return w

    def listed(self, t, bbmd):
        return self._window(t, bbmd)

    def renewal_overdue(self, t):
        """the device re-registers no later than TTL after its last registration request"""
        if self.mode != "wanted":
            return False
        if self.last_reg is None:
            return True             # asked by the application and nothing left the device
        t_reg, ttl = self.last_reg
        return t > t_reg + ttl + EPS

    # ---- canonical form for state hashing (relative times, capped where the classification cannot change any more)
    def canon(self, t):
        recs = []
        for b in sorted(self.rec):
            t_ack, ttl, dele, rel = self.rec[b]
            recs.append((b, min(round(t - t_ack, 3), ttl + self.grace + 1.0), ttl, dele, rel))
        lr = None
        if self.last_reg is not None:
            lr = (min(round(t - self.last_reg[0], 3), self.last_reg[1] + 1.0), self.last_reg[1])
        return (self.mode, self.bbmd, self.ttl, tuple(recs), lr,
                tuple((b, tuple(q)) for b, q in sorted(self.open.items()) if q))
