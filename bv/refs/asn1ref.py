"""Second, deliberately naive interpreter of the *committed transcription* of the BACnet wire schema (C03).

It never imports bacpypes.  Everything it knows comes from ``asn1_schema.json`` (per type: element name,
class name, context number, optional flag; per registry: service choice -> class; per primitive class: its
application datatype and, for enumerations, name -> number) and from clause 20.2 (tag and primitive
encodings, written out below).

* ``encode(type_name, value)`` -> octets of a neutral value (see asn1gen for the value layout)
* ``diff(live_schema)``        -> differences between the committed transcription and tables extracted
                                  from the code under test
* ``from_json(type_name, j)``  -> neutral value from the plain-JSON parameter notation of annexf.json
* ``apci(...)``                -> fixed APDU header octets (clause 20.1) for the Annex F vectors
"""
import json
import os
import struct

HERE = os.path.dirname(os.path.abspath(__file__))
SCHEMA_FILE = os.path.join(HERE, "asn1_schema.json")
ANNEXF_FILE = os.path.join(HERE, "annexf.json")

APP_TAG = {"Null": 0, "Boolean": 1, "Unsigned": 2, "Integer": 3, "Real": 4, "Double": 5, "OctetString": 6,
           "CharacterString": 7, "BitString": 8, "Enumerated": 9, "Date": 10, "Time": 11, "ObjectIdentifier": 12}


class RefError(Exception):
    """The value cannot be encoded under the committed schema (missing required element, unknown name ...)."""


# ----------------------------------------------------------------------------- clause 20.2.1: tags

def tag_header(number, cls, lvt):
    """initial octet(s) of a tag; cls 0 application / 1 context; lvt is the 3-bit field already decided"""
    if not 0 <= number <= 254:
        raise RefError("tag number %r cannot be encoded (0..254)" % (number,))
    if number <= 14:
        return bytes([(number << 4) | (cls << 3) | lvt])
    return bytes([0xF0 | (cls << 3) | lvt, number])


def tagged(number, cls, content):
    n = len(content)
    if n <= 4:
        return tag_header(number, cls, n) + content
    if n <= 253:
        return tag_header(number, cls, 5) + bytes([n]) + content
    if n <= 65535:
        return tag_header(number, cls, 5) + b"\xfe" + struct.pack(">H", n) + content
    return tag_header(number, cls, 5) + b"\xff" + struct.pack(">L", n) + content


def opening(number):
    return tag_header(number, 1, 6)


def closing(number):
    return tag_header(number, 1, 7)


# ----------------------------------------------------------------------------- clause 20.2.2 .. 20.2.14: contents

def _unsigned_octets(n):
    if not isinstance(n, int) or isinstance(n, bool) or n < 0:
        raise RefError("unsigned expected, got %r" % (n,))
    out = b""
    while True:
        out = bytes([n & 0xFF]) + out
        n >>= 8
        if n == 0:
            return out


def _signed_octets(n):
    if not isinstance(n, int) or isinstance(n, bool):
        raise RefError("integer expected, got %r" % (n,))
    for length in range(1, 9):
        if -(1 << (8 * length - 1)) <= n < (1 << (8 * length - 1)):
            return (n & ((1 << (8 * length)) - 1)).to_bytes(length, "big")
    raise RefError("integer too wide")


class Ref(object):
    def __init__(self, schema=None):
        if schema is None:
            with open(SCHEMA_FILE) as f:
                schema = json.load(f)
        self.schema = schema
        self.types = schema["types"]
        self.prims = schema["primitives"]
        self.registries = schema["registries"]
        self.wire = schema.get("wire_overrides", {})
        self._num = {}

    # -- lookups
    def knows(self, name):
        return name in self.types or name in self.prims

    def base_of(self, cls):
        p = self.prims.get(cls)
        if p is None:
            raise RefError("primitive class %s is not in the committed schema" % cls)
        return p["base"]

    def enum_number(self, cls, v):
        """name or number -> number, by the committed table of the class"""
        if isinstance(v, bool):
            raise RefError("enumeration value %r" % (v,))
        if isinstance(v, int):
            return v
        table = self.prims.get(cls, {}).get("enumerations") or {}
        if v not in table:
            raise RefError("%s has no enumeration %r in the committed schema" % (cls, v))
        return table[v]

    def elements(self, tname):
        ent = self.types.get(tname)
        if ent is None:
            raise RefError("type %s is not in the committed schema" % tname)
        if tname in self.wire:
            return self.wire[tname]["elements"]
        return ent["elements"]

    # -- primitive contents (without tag)
    def content(self, cls, v):
        """-> (base, content octets); for Boolean the content is the single octet of the context form"""
        base = self.base_of(cls)
        if base == "Null":
            if v != () and v is not None:
                raise RefError("null value %r" % (v,))
            return base, b""
        if base == "Boolean":
            if not isinstance(v, bool):
                raise RefError("boolean value %r" % (v,))
            return base, (b"\x01" if v else b"\x00")
        if base == "Unsigned":
            return base, _unsigned_octets(v)
        if base == "Integer":
            return base, _signed_octets(v)
        if base == "Real":
            return base, struct.pack(">f", v)
        if base == "Double":
            return base, struct.pack(">d", v)
        if base == "OctetString":
            return base, bytes(v)
        if base == "CharacterString":
            return base, b"\x00" + v.encode("utf-8")
        if base == "BitString":
            bits = list(v)
            unused = (8 - len(bits) % 8) % 8
            bits = bits + [0] * unused
            out = bytearray([unused])
            for i in range(0, len(bits), 8):
                x = 0
                for b in bits[i:i + 8]:
                    if b not in (0, 1):
                        raise RefError("bit %r" % (b,))
                    x = (x << 1) | b
                out.append(x)
            return base, bytes(out)
        if base == "Enumerated":
            return base, _unsigned_octets(self.enum_number(cls, v))
        if base in ("Date", "Time"):
            if len(v) != 4:
                raise RefError("%s value %r" % (base, v))
            return base, bytes(v)
        if base == "ObjectIdentifier":
            otype, inst = v
            otype = self.enum_number("ObjectType", otype)
            if not (0 <= otype <= 1023 and 0 <= inst <= 0x3FFFFF):
                raise RefError("object identifier %r" % (v,))
            return base, struct.pack(">L", (otype << 22) | inst)
        raise RefError("unknown base %r" % base)

    def primitive(self, cls, v, context=None):
        base, content = self.content(cls, v)
        if context is not None:
            return tagged(context, 1, content)
        if base == "Boolean":
            return tag_header(APP_TAG[base], 0, 1 if v else 0)      # 20.2.3: value in the LVT field, no content
        return tagged(APP_TAG[base], 0, content)

    # -- values
    def encode(self, tname, value):
        """octets of a value standing alone (no enclosing tag)"""
        return self._value(tname, value)

    def _own_type(self, value):
        """the type a value announces itself (content of an Any, AnyAtomic positions)"""
        return value[1]

    def _value(self, tname, v):
        k = v[0]
        if k in ("P", "X"):
            return self.primitive(v[1], v[2])
        if k == "S":
            if v[1] != tname:
                raise RefError("value of %s where %s expected" % (v[1], tname))
            ent = self.types.get(tname)
            if ent is None or ent["kind"] != "sequence":
                raise RefError("%s is not a sequence in the committed schema" % tname)
            given = dict(v[2])
            els = self.elements(tname)
            unknown = set(given) - set(e["name"] for e in els)
            if unknown:
                raise RefError("%s has no element %s in the committed schema" % (tname, sorted(unknown)))
            out = b""
            for e in els:
                x = given.get(e["name"])
                if x is None:
                    if not e["optional"]:
                        raise RefError("%s.%s is required by the committed schema but absent" % (tname, e["name"]))
                    continue
                out += self._element(e, x)
            return out
        if k == "C":
            if v[1] != tname:
                raise RefError("value of %s where %s expected" % (v[1], tname))
            ent = self.types.get(tname)
            if ent is None or ent["kind"] != "choice":
                raise RefError("%s is not a choice in the committed schema" % tname)
            for e in self.elements(tname):
                if e["name"] == v[2]:
                    return self._element(e, v[3])
            raise RefError("%s has no alternative %s in the committed schema" % (tname, v[2]))
        if k == "L":
            ent = self.types.get(v[1])
            if ent is None or ent["kind"] not in ("sequenceof", "listof", "arrayof"):
                raise RefError("%s is not a list in the committed schema" % v[1])
            if ent.get("fixed_length") is not None and len(v[2]) != ent["fixed_length"]:
                raise RefError("%s must have %d items" % (v[1], ent["fixed_length"]))
            return b"".join(self._item(ent["subtype"], x) for x in v[2])
        if k == "A":
            return b"".join(self._value(self._own_type(x), x) for x in v[2])
        raise RefError("unknown value %r" % (v,))

    def _item(self, sub, x):
        if sub in self.prims:
            if x[0] != "P" or x[1] != sub:
                raise RefError("item %r where %s expected" % (x[:2], sub))
            return self.primitive(sub, x[2])
        ent = self.types.get(sub)
        if ent is not None and ent["kind"] == "anyatomic":
            return self._value(self._own_type(x), x)
        return self._value(sub, x)

    def _element(self, e, x):
        cls, ctx = e["class"], e["context"]
        if cls in self.prims:
            if x[0] != "P":
                raise RefError("%s: atomic value expected, got %r" % (e["name"], x[0]))
            return self.primitive(cls, x[2], ctx)
        ent = self.types.get(cls)
        if ent is None:
            raise RefError("class %s of element %s is not in the committed schema" % (cls, e["name"]))
        kind = ent["kind"]
        if kind == "anyatomic":
            if ctx is not None:
                raise RefError("%s: AnyAtomic cannot be context tagged" % e["name"])
            return self._value(self._own_type(x), x)       # application tagged by its own datatype
        if kind in ("sequenceof", "listof", "arrayof"):
            if x[0] != "L":
                raise RefError("%s: list expected" % e["name"])
            body = b"".join(self._item(ent["subtype"], i) for i in x[2])
        elif kind in ("any", "seqofany"):
            if x[0] != "A":
                raise RefError("%s: Any expected" % e["name"])
            body = self._value(cls, x)
        else:
            body = self._value(cls, x)
        if ctx is None:
            return body
        return opening(ctx) + body + closing(ctx)

    def spans(self, tname, v):
        """[(element name, start, end)] of the elements of a sequence / the alternative of a choice inside encode(v);
        used only to name the element at which two encodings start to differ"""
        out = []
        pos = 0
        try:
            if v[0] == "S":
                given = dict(v[2])
                for e in self.elements(tname):
                    x = given.get(e["name"])
                    if x is None:
                        continue
                    n = len(self._element(e, x))
                    out.append((e["name"], pos, pos + n))
                    pos += n
            elif v[0] == "C":
                out.append((v[2], 0, len(self._value(tname, v))))
        except RefError:
            pass
        return out

    # -- what the last top-level element of a service can absorb (trailing tag oracle)
    def tail_absorbs(self, tname):
        """True when a tag appended after a complete value of this sequence is grammatically an item of its last
        element (untagged list / Any at the end), so the decoder meets it inside that element."""
        ent = self.types.get(tname)
        if ent is None or ent["kind"] != "sequence":
            return None
        els = self.elements(tname)
        if not els:
            return False
        last = els[-1]
        if last["context"] is not None:
            return False
        le = self.types.get(last["class"])
        if le is None:
            return False
        return le["kind"] in ("sequenceof", "listof", "arrayof", "any", "seqofany")

    # -- plain JSON parameters (annexf.json) -> neutral value
    def from_json(self, tname, j):
        if tname in self.prims:
            return ("P", tname, self._prim_from_json(tname, j))
        ent = self.types.get(tname)
        if ent is None:
            raise RefError("type %s is not in the committed schema" % tname)
        kind = ent["kind"]
        if kind == "sequence":
            if not isinstance(j, dict):
                raise RefError("%s: object expected" % tname)
            els = self.elements(tname)
            unknown = set(j) - set(e["name"] for e in els)
            if unknown:
                raise RefError("%s has no element %s" % (tname, sorted(unknown)))
            return ("S", tname, tuple((e["name"], self._el_from_json(e, j[e["name"]]) if e["name"] in j else None)
                                      for e in els))
        if kind == "choice":
            if not isinstance(j, dict) or len(j) != 1:
                raise RefError("%s: object with one member expected" % tname)
            (alt, val), = j.items()
            for e in self.elements(tname):
                if e["name"] == alt:
                    return ("C", tname, alt, self._el_from_json(e, val))
            raise RefError("%s has no alternative %s" % (tname, alt))
        if kind in ("sequenceof", "listof", "arrayof"):
            return ("L", tname, tuple(self.from_json(ent["subtype"], x) for x in j))
        if kind in ("any", "seqofany"):
            # [{"type": name, "value": ...}, ...]
            out = []
            for item in j:
                t = item["type"]
                if t in self.prims:
                    out.append(("X", t, self._prim_from_json(t, item["value"])))
                else:
                    out.append(self.from_json(t, item["value"]))
            return ("A", tname, tuple(out))
        if kind == "anyatomic":
            return ("X", j["type"], self._prim_from_json(j["type"], j["value"]))
        raise RefError("cannot read %s from json" % tname)

    def _el_from_json(self, e, j):
        return self.from_json(e["class"], j)

    def _prim_from_json(self, cls, j):
        base = self.base_of(cls)
        if base == "Null":
            return ()
        if base in ("Real",):
            return struct.unpack(">f", struct.pack(">f", float(j)))[0]
        if base == "Double":
            return float(j)
        if base == "OctetString":
            return bytes.fromhex(j["hex"])
        if base in ("Date", "Time"):
            return tuple(j)
        if base == "ObjectIdentifier":
            return (j[0], j[1])
        if base == "BitString":
            return list(j)
        return j

    # -- canonical forms used by the comparer
    def canon_prim(self, cls, v):
        """value -> comparable canonical form under the committed tables (names -> numbers, floats -> bits)"""
        base = self.prims.get(cls, {}).get("base")
        try:
            if base == "Enumerated":
                return ("enum", self.enum_number(cls, v))
            if base == "ObjectIdentifier":
                return ("oid", self.enum_number("ObjectType", v[0]), v[1])
            if base == "Real":
                return ("real", struct.pack(">f", v))
            if base == "Double":
                return ("double", struct.pack(">d", v))
            if base == "OctetString":
                return ("octets", bytes(v))
            if base == "Boolean":
                return ("bool", v) if isinstance(v, bool) else ("not-bool", repr(v))
            if base in ("Unsigned", "Integer"):
                return ("int", v) if isinstance(v, int) and not isinstance(v, bool) else ("not-int", repr(v))
            if base == "BitString":
                return ("bits", tuple(v))
            if base in ("Date", "Time"):
                return ("tuple", tuple(v))
            if base == "Null":
                return ("null", tuple(v))
            if base == "CharacterString":
                return ("str", v) if isinstance(v, str) else ("not-str", repr(v))
        except (RefError, TypeError, ValueError, struct.error, IndexError):
            pass
        return ("raw", repr(v))


# ----------------------------------------------------------------------------- APDU fixed parts (clause 20.1)

PDU_TYPES = {"confirmed": 0, "unconfirmed": 1, "simpleack": 2, "complexack": 3, "segmentack": 4, "error": 5,
             "reject": 6, "abort": 7}
REGISTRY_OF = {"confirmed": "confirmed_request_types", "complexack": "complex_ack_types",
               "unconfirmed": "unconfirmed_request_types", "error": "error_types"}


def apci(pdu, service=None, invoke=None, max_segs=0, max_resp=0, sa=False, reason=None, srv=False):
    """header octets of an unsegmented APDU"""
    t = PDU_TYPES[pdu]
    if pdu == "confirmed":
        return bytes([(t << 4) | (0x02 if sa else 0), (max_segs << 4) | max_resp, invoke, service])
    if pdu == "unconfirmed":
        return bytes([t << 4, service])
    if pdu in ("simpleack", "complexack", "error"):
        return bytes([t << 4, invoke, service])
    if pdu == "reject":
        return bytes([t << 4, invoke, reason])
    if pdu == "abort":
        return bytes([(t << 4) | (1 if srv else 0), invoke, reason])
    raise RefError("pdu kind %r" % pdu)


# ----------------------------------------------------------------------------- committed vs live

def diff(committed, live):
    """-> list of (scope, type, element, what, detail).  Only facts of the committed transcription are checked;
    things the tree has in addition are returned with what == 'not-in-transcription' (informational)."""
    out = []
    for reg, table in committed["registries"].items():
        lt = live["registries"].get(reg)
        if lt is None:
            out.append(("registry", reg, "*", "registry-missing", "registry %s does not exist" % reg))
            continue
        for choice, cls in table.items():
            if choice not in lt:
                out.append(("registry", reg, choice, "entry-removed", "service choice %s (%s) is not registered" % (choice, cls)))
            elif lt[choice] != cls:
                out.append(("registry", reg, choice, "entry-changed",
                            "service choice %s decodes as %s, transcription says %s" % (choice, lt[choice], cls)))
        for choice, cls in lt.items():
            if choice not in table:
                out.append(("registry", reg, choice, "not-in-transcription", "service choice %s -> %s" % (choice, cls)))
    for name, ent in committed["types"].items():
        le = live["types"].get(name)
        if le is None:
            out.append(("type", name, "*", "type-missing", "type %s is not reachable in the tree" % name))
            continue
        if le["kind"] != ent["kind"]:
            out.append(("type", name, "*", "kind-changed", "%s is a %s, transcription says %s" % (name, le["kind"], ent["kind"])))
            continue
        for k in ("subtype", "fixed_length", "pdu", "custom_codec"):
            if le.get(k) != ent.get(k):
                out.append(("type", name, "*", "%s-changed" % k.replace("_", "-"),
                            "%s: %s is %r, transcription says %r" % (name, k, le.get(k), ent.get(k))))
        if "elements" in ent:
            mine = ent["elements"]
            theirs = le.get("elements", [])
            tn = [e["name"] for e in theirs]
            mn = [e["name"] for e in mine]
            for i, e in enumerate(mine):
                if e["name"] not in tn:
                    out.append(("type", name, e["name"], "element-removed", "%s.%s no longer exists" % (name, e["name"])))
                    continue
                t = theirs[tn.index(e["name"])]
                if t["context"] != e["context"]:
                    out.append(("type", name, e["name"], "context-changed",
                                "%s.%s has context %r, transcription says %r" % (name, e["name"], t["context"], e["context"])))
                if bool(t["optional"]) != bool(e["optional"]):
                    out.append(("type", name, e["name"], "optional-flag-changed",
                                "%s.%s optional=%r, transcription says %r" % (name, e["name"], t["optional"], e["optional"])))
                if t["class"] != e["class"]:
                    out.append(("type", name, e["name"], "class-changed",
                                "%s.%s is a %s, transcription says %s" % (name, e["name"], t["class"], e["class"])))
            for e in theirs:
                if e["name"] not in mn:
                    out.append(("type", name, e["name"], "element-added", "%s.%s is not in the transcription" % (name, e["name"])))
            common_m = [n for n in mn if n in tn]
            common_t = [n for n in tn if n in mn]
            if common_m != common_t:
                for a, b in zip(common_m, common_t):
                    if a != b:
                        out.append(("type", name, b, "order-changed",
                                    "%s: element order is %s, transcription says %s" % (name, common_t, common_m)))
                        break
    for name in live["types"]:
        if name not in committed["types"]:
            out.append(("type", name, "*", "not-in-transcription", "type %s" % name))
    for name, ent in committed["primitives"].items():
        le = live["primitives"].get(name)
        if le is None:
            out.append(("primitive", name, "*", "type-missing", "primitive class %s is not reachable in the tree" % name))
            continue
        if le.get("base") != ent.get("base"):
            out.append(("primitive", name, "*", "base-changed", "%s is a %s, transcription says %s" % (name, le.get("base"), ent.get("base"))))
        for k in ("max", "min", "length"):
            if le.get(k) != ent.get(k):
                out.append(("primitive", name, k, "limit-changed", "%s.%s is %r, transcription says %r" % (name, k, le.get(k), ent.get(k))))
        for tab in ("enumerations", "bits"):
            mt = ent.get(tab) or {}
            lt = le.get(tab) or {}
            for k, v in mt.items():
                if k not in lt:
                    out.append(("primitive", name, k, "name-removed", "%s.%s (%d) no longer exists" % (name, k, v)))
                elif lt[k] != v:
                    out.append(("primitive", name, k, "number-changed", "%s.%s is %r, transcription says %r" % (name, k, lt[k], v)))
            for k, v in lt.items():
                if k not in mt:
                    out.append(("primitive", name, k, "not-in-transcription", "%s.%s = %r" % (name, k, v)))
    for name in live["primitives"]:
        if name not in committed["primitives"]:
            out.append(("primitive", name, "*", "not-in-transcription", "primitive class %s" % name))
    return out


def load_schema():
    with open(SCHEMA_FILE) as f:
        return json.load(f)


def load_annexf():
    with open(ANNEXF_FILE) as f:
        return json.load(f)
