"""Reference model of a node's routing knowledge (property C19) -- no bacpypes import.

The whole knowledge is ONE dict  (source network, destination network) -> router (its MAC octets),
updated "newest wins":

* learn(snet, router, dnets)           every named destination now leads to `router` (whoever had it loses it)
* forget_router(snet, router)          every destination that led to `router` on `snet` is gone, nothing else
* forget_dnets(snet, dnets)            the named destinations on `snet` are gone, nothing else
* forget_router_dnets(snet, r, dnets)  the named destinations are gone *where they led to r*, nothing else (a listed
                                       destination that leads to another router, or to nobody, is not touched)
* renumber(old, new)                   every (old, d) becomes (new, d); `new` must not be in use

plus the small amount of node state needed for the through-the-wire part (which port carries which
network number, whether that number was configured or learned, and which application packets were handed to
the node while it knew no path to their destination network and have not been seen on a LAN yet) and an NPDU
parser / builder written
from clause 6.2 (NPCI layout) and 6.4 (message types), so that frames can be built and judged without the
codec under test.
"""

# --------------------------------------------------------------------------- the routing table


class RouteRef(object):
    def __init__(self):
        self.table = {}                      # (snet, dnet) -> router

    def copy(self):
        r = RouteRef()
        r.table = dict(self.table)
        return r

    # -- operations
    def learn(self, snet, router, dnets):
        for d in dnets:
            self.table[(snet, d)] = router

    def forget_router(self, snet, router):
        for k in [k for k, r in self.table.items() if k[0] == snet and r == router]:
            del self.table[k]

    def forget_dnets(self, snet, dnets):
        for d in dnets:
            self.table.pop((snet, d), None)

    def forget_router_dnets(self, snet, router, dnets):
        for d in dnets:
            if self.table.get((snet, d)) == router:
                del self.table[(snet, d)]

    def renumber(self, old, new):
        if old == new:
            return
        if any(k[0] == new for k in self.table):
            raise ValueError("renumbering onto a source network in use is outside the statement")
        for k in [k for k in self.table if k[0] == old]:
            self.table[(new, k[1])] = self.table.pop(k)

    # -- queries
    def lookup(self, snet, dnet):
        return self.table.get((snet, dnet))

    def dnets_of(self, snet, router):
        return sorted(k[1] for k, r in self.table.items() if k[0] == snet and r == router)

    def credited(self):
        """{(snet, router): sorted dnets} -- what the router index must say."""
        out = {}
        for (s, d), r in self.table.items():
            out.setdefault((s, r), []).append(d)
        return {k: sorted(v) for k, v in out.items()}

    def named_by(self, op_kind, snet, router=None, dnets=None, new=None):
        """The (snet, dnet) entries an operation names (I3: nothing else may change)."""
        if op_kind == "learn":
            return {(snet, d) for d in dnets}
        if op_kind == "forget_router":
            return {k for k, r in self.table.items() if k[0] == snet and r == router}
        if op_kind == "forget_dnets":
            return {(snet, d) for d in dnets}
        if op_kind == "forget_router_dnets":
            return {(snet, d) for d in dnets if self.table.get((snet, d)) == router}
        if op_kind == "renumber":
            return {k for k in self.table if k[0] == snet} | {(new, k[1]) for k in self.table if k[0] == snet}
        raise ValueError(op_kind)


def net_key(n):
    """Sort key for network numbers that may be None (port whose number is not known yet)."""
    return (n is None, 0 if n is None else n)


# --------------------------------------------------------------------------- node state (through the wire)

class PortRef(object):
    """One port of the node: its network number (None = not known yet) and how it got it."""

    def __init__(self, net):
        self.net = net
        self.configured = None if net is None else 1      # 1 configured, 0 learned, None unknown


class NodeRef(object):
    """Two-port node: ports + one RouteRef keyed by the *current* number of the port."""

    def __init__(self, nets):
        self.ports = [PortRef(n) for n in nets]
        self.routes = RouteRef()
        # application traffic handed to the node during the history: tag -> destination network, the tags not yet
        # seen on a LAN per destination network (in the order they were handed over) and the tags seen
        self.tags = {}
        self.waiting = {}
        self.delivered = set()
        # an account of the environment, not of the node: the destination networks the application has already sent
        # traffic to while a path was known (such a packet leaves at once and changes nothing in the knowledge, but the
        # node has now *used* a path -- two histories that differ only in this are different histories)
        self.sent_known = set()

    def net(self, port):
        return self.ports[port].net

    def can_renumber(self, port, new):
        p = self.ports[port]
        if p.configured == 1 or new == p.net:
            return False
        return all(q.net != new for q in self.ports)

    def network_number_is(self, port, new, flag):
        """A broadcast Network-Number-Is heard on `port` (clause 6.4.19/6.4.20 as far as the statement needs it):
        a configured number is kept, an unknown number is learned, a learned number follows the announcement;
        the routing knowledge moves with the number."""
        p = self.ports[port]
        if p.configured == 1 or p.net == new:
            return
        self.routes.renumber(p.net, new)
        p.configured = 0 if p.net is None else flag        # a first number is always "learned"
        p.net = new

    def next_hops(self, dnet):
        """Admissible (port, router) pairs for traffic to dnet: the current knowledge of every port."""
        out = []
        for i, p in enumerate(self.ports):
            r = self.routes.lookup(p.net, dnet)
            if r is not None:
                out.append((i, r))
        return out

    # -- application traffic of the history ("traffic sent afterwards follows the current knowledge")
    #    A packet for a network the node knows a path to goes out at once.  A packet for a network without a known
    #    path cannot go anywhere: the node asks Who-Is-Router-To-Network (once per network it is waiting for) and
    #    holds the packet.  From the moment the node knows a path nothing is held for that network any more: what was
    #    held is on the wire towards a current next hop, each packet once.

    def hand_over(self, dnet, tag):
        """The application hands a packet to the node.  -> 'forward' | 'hold+ask' | 'hold'."""
        self.tags[tag] = dnet
        if self.next_hops(dnet):
            self.waiting.setdefault(dnet, []).append(tag)      # expected on the wire within this very step
            self.sent_known.add(dnet)
            return "forward"
        first = not self.waiting.get(dnet)
        self.waiting.setdefault(dnet, []).append(tag)
        return "hold+ask" if first else "hold"

    def seen_on_wire(self, tag):
        """A packet of the history was observed on a LAN.  -> True if that is its first appearance."""
        first = tag not in self.delivered
        self.delivered.add(tag)
        lst = self.waiting.get(self.tags[tag], [])
        if tag in lst:
            lst.remove(tag)
        return first

    def held(self, dnet):
        return list(self.waiting.get(dnet, ()))

    def held_total(self):
        return sum(len(v) for v in self.waiting.values())

    def held_counts(self):
        return tuple(sorted((d, len(v)) for d, v in self.waiting.items() if v))

    def sent_over_known_path(self):
        return tuple(sorted(self.sent_known))

    def overdue(self):
        """Destination networks with a known path for which packets are still held (must be empty in a sound state)."""
        return sorted(d for d, v in self.waiting.items() if v and self.next_hops(d))


# --------------------------------------------------------------------------- NPDU octets (clause 6.2, 6.4)

MSG_WHO_IS_ROUTER = 0x00
MSG_I_AM_ROUTER = 0x01
MSG_REJECT_MESSAGE = 0x03
MSG_INIT_ROUTING_TABLE_ACK = 0x07
MSG_NETWORK_NUMBER_IS = 0x13
MSG_PROPRIETARY_FIRST = 0x80             # 0x80..0xFF: the message type is followed by a two-octet vendor identifier


def build_npdu(payload=b"", msg=None, dnet=None, dadr=b"", snet=None, sadr=b"", hop=255, expecting_reply=False, prio=0):
    """NPCI + NSDU.  dnet=0xFFFF global broadcast, dadr=b'' remote broadcast."""
    control = (0x80 if msg is not None else 0) | (0x20 if dnet is not None else 0) | (0x08 if snet is not None else 0) \
        | (0x04 if expecting_reply else 0) | (prio & 3)
    out = bytearray([0x01, control])
    if dnet is not None:
        out += dnet.to_bytes(2, "big") + bytes([len(dadr)]) + dadr
    if snet is not None:
        out += snet.to_bytes(2, "big") + bytes([len(sadr)]) + sadr
    if dnet is not None:
        out.append(hop)
    if msg is not None:
        out.append(msg)
    return bytes(out) + payload


def i_am_router_to_network(dnets):
    return build_npdu(b"".join(d.to_bytes(2, "big") for d in dnets), msg=MSG_I_AM_ROUTER)


def network_number_is(net, flag):
    return build_npdu(net.to_bytes(2, "big") + bytes([flag]), msg=MSG_NETWORK_NUMBER_IS)


# network layer messages that travel through routers and therefore arrive with the SNET/SADR of their originator
# (clause 6.4.1, 6.4.4, 6.4.8, 6.2.2.5); snet/sadr = the originator as the last router stamped it

def who_is_router_to_network(net=None, snet=None, sadr=b""):
    """6.4.1: the question of a station, passed on by a router that does not know the answer (it adds SNET/SADR)."""
    return build_npdu(b"" if net is None else net.to_bytes(2, "big"), msg=MSG_WHO_IS_ROUTER, snet=snet, sadr=sadr)


def reject_message_to_network(reason, net, snet=None, sadr=b""):
    """6.4.4: a router further away refuses a message towards `net`; directed at the originator of that message."""
    return build_npdu(bytes([reason]) + net.to_bytes(2, "big"), msg=MSG_REJECT_MESSAGE, snet=snet, sadr=sadr)


def initialize_routing_table_ack(entries=(), snet=None, sadr=b""):
    """6.4.8: entries = (dnet, port id, port info octets)."""
    body = bytes([len(entries)]) + b"".join(d.to_bytes(2, "big") + bytes([pid, len(info)]) + info for d, pid, info in entries)
    return build_npdu(body, msg=MSG_INIT_ROUTING_TABLE_ACK, snet=snet, sadr=sadr)


def proprietary_message(msg, vendor, data=b"", snet=None, sadr=b""):
    """6.2.4: message types 0x80..0xFF carry a vendor identifier in front of their data."""
    if not MSG_PROPRIETARY_FIRST <= msg <= 0xFF:
        raise ValueError("not a proprietary message type")
    return build_npdu(vendor.to_bytes(2, "big") + data, msg=msg, snet=snet, sadr=sadr)


def parse_npdu(data):
    """-> dict(version, control, dnet, dadr, snet, sadr, hop, msg, payload) or None if not a well-formed NPDU."""
    try:
        if len(data) < 2 or data[0] != 0x01:
            return None
        control = data[1]
        i = 2
        out = {"version": 1, "control": control, "dnet": None, "dadr": None, "snet": None, "sadr": None, "hop": None, "msg": None}
        if control & 0x20:
            out["dnet"] = int.from_bytes(data[i:i + 2], "big")
            n = data[i + 2]
            out["dadr"] = bytes(data[i + 3:i + 3 + n])
            if len(out["dadr"]) != n:
                return None
            i += 3 + n
        if control & 0x08:
            out["snet"] = int.from_bytes(data[i:i + 2], "big")
            n = data[i + 2]
            out["sadr"] = bytes(data[i + 3:i + 3 + n])
            if len(out["sadr"]) != n:
                return None
            i += 3 + n
        if control & 0x20:
            out["hop"] = data[i]
            i += 1
        if control & 0x80:
            out["msg"] = data[i]
            i += 1
            if out["msg"] >= 0x80:
                i += 2
        if i > len(data):
            return None
        out["payload"] = bytes(data[i:])
        return out
    except IndexError:
        return None
