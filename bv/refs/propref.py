"""Reference for C15: a dictionary model of BACnet objects with the typed rules of the statement.

Written from ASHRAE 135 clauses 15.5 (ReadProperty), 15.7 (ReadPropertyMultiple), 15.9 (WriteProperty),
12 (array properties: index 0 = number of elements, 1..n = elements), 18 (error classes/codes, reject
reasons) and the statement of the property.  It never imports bacpypes.

Values are *opaque typed items*; the model never interprets their octets:

    kind   ("app", n)        an application-tagged primitive with tag number n (0 null, 1 boolean, 2 unsigned,
                             3 integer, 4 real, 5 double, 6 octet string, 7 character string, 8 bit string,
                             9 enumerated, 10 date, 11 time, 12 object identifier)
           ("con", name)     one constructed value of the named type
    Item   (kind, octets)    one value as it travels in a PDU
    Value  tuple of Items    what a request carries: one item for a scalar, the elements for an array / list

A property has a type

    ("one",   kinds)         exactly one item whose kind is in `kinds` (a choice of primitives has several)
    ("array", kinds, fixed)  BACnetARRAY of such items, `fixed` = prescribed number of elements or None
    ("list",  kinds)         BACnetLIST of such items
    ("opaque",)              the model does not predict the value (computed properties); only presence counts

Rules (the statement, made explicit):

 read  (object, property, index)
    object identifier (Device, 4194303)              -> the request is treated as if the identifier matched the
                                                        device's own Device object (15.5.2, 15.7.2: instance
                                                        4194303 is the "whoever you are" form); everything below
                                                        applies to that object.  The identifier the reply carries
                                                        may be the one asked for or the device's actual one
                                                        (Model.answers_as); the statement does not say which
    unknown object                                   -> refused: unknown-object
    property absent from the object                  -> refused: unknown-property (with an index also: bad-array-index)
    index given, property not an array               -> refused: bad-array-index
    array, index 0                                   -> Unsigned(number of elements)
    array, 1 <= index <= n                           -> element
    array, any other index                           -> refused: bad-array-index
    no index                                         -> whole value (elements of an array/list concatenated)
 write (object, property, index, value)
    unknown object / absent property                 -> refused with exactly that class
    otherwise every applicable class is collected    -> read-only, bad-array-index, wrong-datatype
       (the statement does not rank them: a reply from the union of their admissible sets is accepted)
    none applicable                                  -> accepted; the model stores the value
    writing the number of elements (index 0) with an Unsigned: whether an array can be resized is up to the
    device; a whole array of another length than prescribed; a Null where the datatype admits NULL
                                                     -> "either": a refusal must leave everything unchanged, an
                                                        acknowledgement is judged on its consequences (index 0
                                                        reads the written length, elements 1..n read as values,
                                                        n+1 is an invalid index, the whole value is their
                                                        concatenation)
 one array, every index class (array_census): whatever the content is - also for arrays a device computes per request, which
    the dictionary does not predict - the length at index 0, the elements at 1..n, the refusal at n+1 and the value read
    without an index have to describe the same array: elements 1..n, one after the other, are the octets of the whole value
 a refused write changes nothing anywhere; an accepted write changes exactly the addressed property/element
 (growing an array through index 0 creates elements whose value the standard leaves to the device: the
 model marks them unknown and learns them from the next read).
"""

NULL = ("app", 0)
UNSIGNED = ("app", 2)
ALL_APP = frozenset(("app", n) for n in range(13))
APP_NAMES = {0: "null", 1: "boolean", 2: "unsigned", 3: "integer", 4: "real", 5: "double", 6: "octetString",
             7: "characterString", 8: "bitString", 9: "enumerated", 10: "date", 11: "time", 12: "objectIdentifier"}

# ---- admissible replies per refusal class.  Replies are neutral tuples:
#      ("error", class, code) | ("reject", reason-name)
ADMISSIBLE = {
    "unknown-object": frozenset([("error", "object", "unknownObject")]),
    "unknown-property": frozenset([("error", "property", "unknownProperty")]),
    # clause 18.9: a request carrying a wrongly typed parameter may be rejected with INVALID_TAG, and
    # "any of INCONSISTENT_PARAMETERS, INVALID_PARAMETER_DATA_TYPE, MISSING_REQUIRED_PARAMETER and
    # TOO_MANY_ARGUMENTS may also be generated in response to a request containing an invalid tag";
    # 15.9.2: Error property/invalid-datatype
    "wrong-datatype": frozenset([("error", "property", "invalidDataType"),
                                 ("error", "services", "invalidParameterDataType"),
                                 ("error", "property", "invalidParameterDataType"),
                                 ("reject", "invalidParameterDatatype"), ("reject", "invalidTag"),
                                 ("reject", "inconsistentParameters"), ("reject", "missingRequiredParameter"),
                                 ("reject", "tooManyArguments")]),
    "read-only": frozenset([("error", "property", "writeAccessDenied")]),
    "bad-array-index": frozenset([("error", "property", "invalidArrayIndex"),
                                  ("error", "property", "propertyIsNotAnArray")]),
}


def admissible(classes):
    out = set()
    for c in classes:
        out |= ADMISSIBLE[c]
    return out


def enc_unsigned(n):
    """Application-tagged Unsigned (clause 20.2.4): tag number 2, minimal big-endian content."""
    if n < 0:
        raise ValueError("unsigned")
    body = n.to_bytes(max(1, (n.bit_length() + 7) // 8), "big")
    if len(body) > 4:
        raise ValueError("length of an array above 2**32")
    return bytes([(2 << 4) | len(body)]) + body


def dec_unsigned(octets):
    """Value of an application-tagged Unsigned item, None if the octets are not one."""
    if len(octets) < 2 or (octets[0] >> 4) != 2 or (octets[0] & 0x08) or (octets[0] & 7) != len(octets) - 1:
        return None
    return int.from_bytes(octets[1:], "big")


def unsigned_item(n):
    return (UNSIGNED, enc_unsigned(n))


CENSUS_MAX = 512        # an array longer than this is not walked element by element (none of the devices has one)


def array_census(whole, length, elements, beyond):
    """Internal consistency of ONE array property as a device serves it (clause 12: "index 0 = number of elements,
    1..n = the elements"; statement: "index 0 with their length, indexes 1..n with the elements and anything else with
    an invalid-array-index error").  No knowledge of the content is needed: whatever the array is, the same array has
    to be behind every index class.

        whole      octets of the value read without an index (the elements, concatenated)
        length     reply to the read of index 0
        elements   replies to the reads of index 1..n, n = the number index 0 gave (empty if it gave none)
        beyond     reply to the read of index n+1 (None: not asked)

    Replies are the neutral tuples ("ack", octets) | ("error", class, code) | ("reject", reason).  BACnet encodings are
    self-delimiting, so "element i is what stands at position i of the whole value" is decided on octets: the
    elements, each a complete non-empty encoding, one after the other, have to give exactly the octets of the whole
    value.  -> list of (what, detail); empty = consistent."""
    out = []
    n = dec_unsigned(length[1]) if length[0] == "ack" else None
    if n is None:
        return [("index-0-is-not-an-unsigned-length", {"index-0": length})]
    if len(elements) != n:
        raise ValueError("census: %d element replies for a length of %d" % (len(elements), n))
    off = 0
    for i, r in enumerate(elements, 1):
        if r[0] != "ack":
            out.append(("element-within-length-not-readable", {"index": i, "length": n, "reply": r}))
            return out
        e = r[1]
        if len(e) == 0:
            out.append(("element-is-empty", {"index": i}))
            return out
        if whole[off:off + len(e)] != e:
            out.append(("element-differs-from-element-of-whole-array",
                        {"index": i, "element-read": e, "whole-array-from-there": whole[off:off + max(len(e), 8)],
                         "offset": off}))
            return out
        off += len(e)
    if off != len(whole):
        out.append(("length-differs-from-whole-array",
                    {"length": n, "octets-of-the-elements": off, "octets-of-the-whole-array": len(whole)}))
    if beyond is not None and (beyond[0] == "ack" or tuple(beyond) not in ADMISSIBLE["bad-array-index"]):
        out.append(("index-beyond-length-not-refused-as-invalid-index", {"index": n + 1, "reply": beyond}))
    return out


NULL_ITEM = (NULL, b"\x00")

# Clauses 15.5.2 (ReadProperty) and 15.7.2 (ReadPropertyMultiple): "If the object identifier is of type Device and
# the instance is 4194303, the responding BACnet-user shall treat the Object Identifier as if it correctly matched
# the local Device object."  4194303 = 2**22 - 1, the instance number no object may have (clause 12).  The rule is
# given for the two read services only; WriteProperty has no such rule and the model gives none.
WILDCARD_DEVICE = ("device", 4194303)


def concat(items):
    return b"".join(o for (_, o) in items)


class Prop(object):
    """One property of the model."""
    __slots__ = ("ptype", "items", "writable", "required")

    def __init__(self, ptype, items, writable=False, required=None):
        self.ptype = ptype
        # "one": [item]; "array"/"list": [item, ...]; an unknown element is None; "opaque": None
        self.items = None if items is None else list(items)
        self.writable = writable
        self.required = required        # conformance code R/W (True), O (False), not stated (None)

    def copy(self):
        return Prop(self.ptype, self.items, self.writable, self.required)

    def kind(self):
        return self.ptype[0]

    def length(self):
        return len(self.items) if self.ptype[0] in ("array", "list") else None


def fits(value, ptype, index):
    """Does `value` (tuple of Items) have the datatype a write to (ptype, index) needs?  True / False."""
    k = ptype[0]
    if k == "opaque":
        return None
    kinds = ptype[1]
    if index is None:
        if k == "one":
            return len(value) == 1 and value[0][0] in kinds
        ok = all(it[0] in kinds for it in value)
        return ok
    # indexed
    if k != "array":
        # not an array: the index is the problem; the value is judged against the whole type
        return fits(value, ptype, None)
    if index == 0:
        return len(value) == 1 and value[0][0] == UNSIGNED
    return len(value) == 1 and value[0][0] in kinds


def _absent(index):
    """Refusal classes for a property the object does not have.  With an array index two reasons apply (there
    is no such property; it would not be an array either) and the statement does not rank them."""
    return ("unknown-property",) if index is None else ("unknown-property", "bad-array-index")


class Model(object):
    def __init__(self):
        self.objects = {}       # (type name, instance) -> {property name: Prop}
        self.local_device = None    # key of the Device object that describes the device itself (None: not modelled)

    def copy(self):
        m = Model()
        m.objects = dict((o, dict((p, pr.copy()) for p, pr in props.items())) for o, props in self.objects.items())
        m.local_device = self.local_device
        return m

    def add(self, objkey, props, local_device=False):
        self.objects[objkey] = dict(props)
        if local_device:
            self.local_device = objkey

    # ------------------------------------------------------------------ object identifiers of the read services
    def denotes(self, objkey):
        """The object a ReadProperty / ReadPropertyMultiple request means by `objkey`: the wildcard Device instance
        is the device's own Device object (not any other Device object the device may hold), everything else is
        itself."""
        if tuple(objkey) == WILDCARD_DEVICE and self.local_device is not None:
            return self.local_device
        return objkey

    def answers_as(self, objkey):
        """Object identifiers a reply to a read of `objkey` may carry."""
        return frozenset([tuple(objkey), tuple(self.denotes(objkey))])

    # ------------------------------------------------------------------ read
    def read(self, objkey, prop, index):
        """("value", octets | None) | ("refuse", (class, ...)) | ("unpredicted",).  octets None = value not predicted."""
        obj = self.objects.get(self.denotes(objkey))
        if obj is None:
            return ("refuse", ("unknown-object",))
        p = obj.get(prop)
        if p is None:
            return ("refuse", _absent(index))
        k = p.kind()
        if index is not None and k == "opaque":
            # a computed property: the model knows whether it is an array, not how long it is
            return ("unpredicted",) if p.ptype[1:] == ("array",) else ("refuse", ("bad-array-index",))
        if index is None:
            if p.items is None or any(it is None for it in p.items):
                return ("value", None)
            return ("value", concat(p.items))
        if k != "array":
            return ("refuse", ("bad-array-index",))
        if index == 0:
            return ("value", enc_unsigned(len(p.items)))
        if 1 <= index <= len(p.items):
            it = p.items[index - 1]
            return ("value", None if it is None else it[1])
        return ("refuse", ("bad-array-index",))

    def present(self, objkey):
        return sorted(self.objects[self.denotes(objkey)])

    def selector(self, objkey, which):
        """Property names a ReadPropertyMultiple selector stands for (clause 15.7.3.1.2): `all` = every
        property of the object, `required` = those with conformance code R or W, `optional` = those with
        code O; Property_List is not returned for all / required."""
        obj = self.objects[self.denotes(objkey)]
        out = []
        for name in sorted(obj):
            if name == "propertyList":
                continue
            req = obj[name].required
            if which == "all" or (which == "required" and req is True) or (which == "optional" and req is False):
                out.append(name)
        return out

    # ------------------------------------------------------------------ write
    def write(self, objkey, prop, index, value):
        """("accept",) | ("refuse", classes) | ("either", why)"""
        obj = self.objects.get(objkey)
        if obj is None:
            return ("refuse", ("unknown-object",))
        p = obj.get(prop)
        if p is None:
            return ("refuse", _absent(index))
        classes = []
        if not p.writable:
            classes.append("read-only")
        k = p.kind()
        if k == "opaque":
            if not classes:
                return ("either", "type not modelled")
            # a computed, read-only property: the refusal may also name the index or the datatype
            return ("refuse", ("read-only", "bad-array-index", "wrong-datatype"))
        if index is not None:
            if k != "array":
                classes.append("bad-array-index")
            elif index < 0 or index > len(p.items):
                classes.append("bad-array-index")
        ok = fits(value, p.ptype, index)
        if not ok:
            # a Null is also what relinquishes a command: on a property that cannot be commanded it is
            # simply a value of the wrong type
            classes.append("wrong-datatype")
        if classes:
            if tuple(value) == (NULL_ITEM,) and "wrong-datatype" not in classes:
                # NULL is also the relinquish request: a device may call it a value of the wrong type even
                # where the datatype admits NULL
                classes.append("wrong-datatype")
            return ("refuse", tuple(classes))
        if tuple(value) == (NULL_ITEM,):
            return ("either", "NULL is a value of this datatype and also the relinquish request")
        if k == "array":
            fixed = p.ptype[2]
            if index == 0:
                # 15.9: whether the size of an array can be changed is up to the device
                return ("either", "writing the number of elements: resizable or not is up to the device")
            if fixed is not None and index is None and len(value) != fixed:
                return ("either", "whole array of another length than prescribed")
        return ("accept",)

    def apply(self, objkey, prop, index, value):
        """Store an accepted write."""
        p = self.objects[objkey][prop]
        k = p.kind()
        if index is None:
            p.items = list(value)
        elif index == 0:
            n = dec_unsigned(value[0][1])
            if n is None:
                raise ValueError("length item is not an unsigned")
            if n <= len(p.items):
                del p.items[n:]
            else:
                p.items.extend([None] * (n - len(p.items)))
        else:
            p.items[index - 1] = value[0]

    def learn(self, objkey, prop, index, item):
        """Fill an element the standard leaves to the device (array grown through index 0)."""
        p = self.objects[objkey][prop]
        if p.items[index - 1] is None:
            p.items[index - 1] = item

    def unknown_elements(self, objkey, prop):
        p = self.objects[objkey][prop]
        if p.items is None:
            return []
        return [i + 1 for i, it in enumerate(p.items) if it is None]


# --------------------------------------------------------------------------------------------------
# Conformance codes of the properties the C15 history objects carry (ASHRAE 135-2016 tables 12-4
# Analog Value, 12-8 Binary Value, 12-24 Multi-state Value, 12-41 CharacterString Value, 12-13 Device).
# True = R or W, False = O.  Only properties that the harness gives a value are listed.
CONFORMANCE = {
    "analogValue": {
        "objectIdentifier": True, "objectName": True, "objectType": True, "presentValue": True,
        "statusFlags": True, "eventState": True, "outOfService": True, "units": True, "propertyList": True,
        "description": False, "eventMessageTextsConfig": False, "covIncrement": False,
    },
    "binaryValue": {
        "objectIdentifier": True, "objectName": True, "objectType": True, "presentValue": True,
        "statusFlags": True, "eventState": True, "outOfService": True, "propertyList": True,
        "description": False, "activeText": False, "inactiveText": False, "eventTimeStamps": False,
    },
    "multiStateValue": {
        "objectIdentifier": True, "objectName": True, "objectType": True, "presentValue": True,
        "statusFlags": True, "eventState": True, "outOfService": True, "numberOfStates": True,
        "propertyList": True,
        "description": False, "stateText": False, "alarmValues": False, "faultValues": False,
    },
    "characterstringValue": {
        "objectIdentifier": True, "objectName": True, "objectType": True, "presentValue": True,
        "statusFlags": True, "propertyList": True,
        "description": False, "eventState": False, "outOfService": False, "alarmValues": False,
        "faultValues": False,
    },
    "device": {
        "objectIdentifier": True, "objectName": True, "objectType": True, "systemStatus": True,
        "vendorName": True, "vendorIdentifier": True, "modelName": True, "firmwareRevision": True,
        "applicationSoftwareVersion": True, "protocolVersion": True, "protocolRevision": True,
        "protocolServicesSupported": True, "protocolObjectTypesSupported": True, "objectList": True,
        "maxApduLengthAccepted": True, "segmentationSupported": True, "apduTimeout": True,
        "numberOfApduRetries": True, "deviceAddressBinding": True, "databaseRevision": True,
        "propertyList": True,
        "location": False, "description": False, "maxSegmentsAccepted": False, "apduSegmentTimeout": False,
        "localTime": False, "localDate": False, "utcOffset": False, "daylightSavingsStatus": False,
        "activeCovSubscriptions": False, "serialNumber": False,
    },
}
