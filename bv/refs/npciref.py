"""Reference for the BACnet network layer: NPCI header (ANSI/ASHRAE 135 clause 6.2) and the
bodies of the network-layer messages (clause 6.4).  Written from the standard; it never imports
bacpypes.

Clause 6.2.2, octet layout of an NPDU

    version            1 octet   always 0x01
    control            1 octet   bit7 1 = NSDU is a network layer message, 0 = APDU
                                 bit6 reserved (0)
                                 bit5 1 = DNET, DLEN, DADR and Hop Count present
                                 bit4 reserved (0)
                                 bit3 1 = SNET, SLEN, SADR present
                                 bit2 data expecting reply
                                 bit1..0 network priority
    DNET               2 octets  big endian; 0xFFFF = global broadcast
    DLEN               1 octet   0 = broadcast on DNET
    DADR               DLEN octets
    SNET               2 octets  0xFFFF is not allowed
    SLEN               1 octet   0 is not allowed
    SADR               SLEN octets
    Hop Count          1 octet   present iff DNET present (it follows the source specifier)
    Message Type       1 octet   present iff bit7
    Vendor ID          2 octets  present iff bit7 and Message Type in 0x80..0xFF
    NSDU               the rest

Addresses are modelled as
    None | ("station", net, mac bytes) | ("rbcast", net) | ("global",)

A header is a dict with keys
    control (decode only: the raw octet), der (bool), prio (0..3), dadr, sadr, hop (None iff no
    DNET), msg (None for an APDU), vendor (None unless msg >= 0x80), payload (bytes)
"""

VERSION = 0x01

BIT_NLM = 0x80
BIT_DNET = 0x20
BIT_SNET = 0x08
BIT_DER = 0x04
RESERVED = 0x50

OK = "ok"              # well-formed: must decode to exactly these fields
REFUSE = "refuse"      # forbidden by the standard or truncated: must be refused
EITHER = "either"      # well-formed octet-wise, but outside what clause 6.2 defines: may be refused,
                       # and if accepted must be read as given here (no misreading)


def u16(n):
    return bytes([(n >> 8) & 0xFF, n & 0xFF])


def control_octet(h):
    c = 0
    if h["msg"] is not None:
        c |= BIT_NLM
    if h["dadr"] is not None:
        c |= BIT_DNET
    if h["sadr"] is not None:
        c |= BIT_SNET
    if h["der"]:
        c |= BIT_DER
    return c | (h["prio"] & 0x03)


def address_octets(a):
    """NET, LEN, ADR of a destination or source specifier."""
    if a[0] == "station":
        return u16(a[1]) + bytes([len(a[2])]) + bytes(a[2])
    if a[0] == "rbcast":
        return u16(a[1]) + b"\x00"
    if a[0] == "global":
        return b"\xff\xff\x00"
    raise ValueError("address kind %r" % (a,))


def encode_segments(h):
    """The header as a list of (field name, octets) in wire order, then the payload."""
    seg = [("version", bytes([VERSION])), ("control", bytes([control_octet(h)]))]
    if h["dadr"] is not None:
        o = address_octets(h["dadr"])
        seg += [("dnet", o[0:2]), ("dlen", o[2:3]), ("dadr", o[3:])]
    if h["sadr"] is not None:
        o = address_octets(h["sadr"])
        seg += [("snet", o[0:2]), ("slen", o[2:3]), ("sadr", o[3:])]
    if h["dadr"] is not None:
        seg.append(("hop", bytes([h["hop"]])))
    if h["msg"] is not None:
        seg.append(("msg", bytes([h["msg"]])))
        if h["msg"] >= 0x80:
            seg.append(("vendor", u16(h["vendor"])))
    seg.append(("payload", bytes(h["payload"])))
    return seg


def encode(h):
    return b"".join(o for (_, o) in encode_segments(h))


def field_at(segments, offset):
    """Name of the field that owns the octet at `offset` (for failure signatures)."""
    pos = 0
    for name, o in segments:
        if offset < pos + len(o):
            return name
        pos += len(o)
    return "beyond-end"


def first_difference(segments, got):
    """(field name, offset) of the first octet where `got` departs from the segments, or None."""
    want = b"".join(o for (_, o) in segments)
    got = bytes(got)
    if want == got:
        return None
    n = min(len(want), len(got))
    for i in range(n):
        if want[i] != got[i]:
            return field_at(segments, i), i
    if len(got) < len(want):
        return field_at(segments, n), n
    return "extra-octets", n


def decode(octets):
    """-> (status, header or None, reason).  reason names why the frame is refused / unspecified."""
    b = bytes(octets)
    n = len(b)
    if n < 1:
        return REFUSE, None, "truncated:version"
    if b[0] != VERSION:
        return REFUSE, None, "version-not-1"
    if n < 2:
        return REFUSE, None, "truncated:control"
    control = b[1]
    notes = []
    if control & RESERVED:
        notes.append("reserved-control-bits")
    pos = 2
    h = {"control": control, "der": bool(control & BIT_DER), "prio": control & 0x03,
         "dadr": None, "sadr": None, "hop": None, "msg": None, "vendor": None, "payload": b""}
    if control & BIT_DNET:
        if n < pos + 3:
            return REFUSE, None, "truncated:dnet-dlen"
        dnet = (b[pos] << 8) | b[pos + 1]
        dlen = b[pos + 2]
        pos += 3
        if n < pos + dlen:
            return REFUSE, None, "truncated:dadr"
        dadr = b[pos:pos + dlen]
        pos += dlen
        if dnet == 0xFFFF:
            h["dadr"] = ("global",)
            if dlen != 0:
                notes.append("global-broadcast-with-dadr")
        elif dlen == 0:
            h["dadr"] = ("rbcast", dnet)
        else:
            h["dadr"] = ("station", dnet, dadr)
        if dnet == 0:
            notes.append("dnet-zero")
    forbidden = None
    if control & BIT_SNET:
        if n < pos + 3:
            return REFUSE, None, "truncated:snet-slen"
        snet = (b[pos] << 8) | b[pos + 1]
        slen = b[pos + 2]
        pos += 3
        if snet == 0xFFFF:
            forbidden = "sadr-global-broadcast"
        elif slen == 0:
            forbidden = "sadr-zero-length"
        if n < pos + slen:
            return REFUSE, None, forbidden or "truncated:sadr"
        sadr = b[pos:pos + slen]
        pos += slen
        if forbidden:
            return REFUSE, None, forbidden
        h["sadr"] = ("station", snet, sadr)
        if snet == 0:
            notes.append("snet-zero")
    if control & BIT_DNET:
        if n < pos + 1:
            return REFUSE, None, "truncated:hop-count"
        h["hop"] = b[pos]
        pos += 1
    if control & BIT_NLM:
        if n < pos + 1:
            return REFUSE, None, "truncated:message-type"
        h["msg"] = b[pos]
        pos += 1
        if h["msg"] >= 0x80:
            if n < pos + 2:
                return REFUSE, None, "truncated:vendor-id"
            h["vendor"] = (b[pos] << 8) | b[pos + 1]
            pos += 2
    h["payload"] = b[pos:]
    if h["msg"] is None and not h["payload"]:
        notes.append("empty-apdu")
    if notes:
        return EITHER, h, "+".join(notes)
    return OK, h, ""


def header_length(octets):
    """Number of octets of the header of a frame that decodes (status OK/EITHER)."""
    st, h, _ = decode(octets)
    if h is None:
        return None
    return len(bytes(octets)) - len(h["payload"])


# ----------------------------------------------------------------------------- clause 6.4 messages

WHO_IS_ROUTER = 0x00
I_AM_ROUTER = 0x01
I_COULD_BE_ROUTER = 0x02
REJECT_MESSAGE = 0x03
ROUTER_BUSY = 0x04
ROUTER_AVAILABLE = 0x05
INIT_RT = 0x06
INIT_RT_ACK = 0x07
ESTABLISH_CONNECTION = 0x08
DISCONNECT_CONNECTION = 0x09
WHAT_IS_NETWORK_NUMBER = 0x12
NETWORK_NUMBER_IS = 0x13

MESSAGES = {
    WHO_IS_ROUTER: "Who-Is-Router-To-Network",
    I_AM_ROUTER: "I-Am-Router-To-Network",
    I_COULD_BE_ROUTER: "I-Could-Be-Router-To-Network",
    REJECT_MESSAGE: "Reject-Message-To-Network",
    ROUTER_BUSY: "Router-Busy-To-Network",
    ROUTER_AVAILABLE: "Router-Available-To-Network",
    INIT_RT: "Initialize-Routing-Table",
    INIT_RT_ACK: "Initialize-Routing-Table-Ack",
    ESTABLISH_CONNECTION: "Establish-Connection-To-Network",
    DISCONNECT_CONNECTION: "Disconnect-Connection-To-Network",
    WHAT_IS_NETWORK_NUMBER: "What-Is-Network-Number",
    NETWORK_NUMBER_IS: "Network-Number-Is",
}

_LISTS = (I_AM_ROUTER, ROUTER_BUSY, ROUTER_AVAILABLE)
_TABLES = (INIT_RT, INIT_RT_ACK)


def encode_body(msg, p):
    """Parameters (dict) -> octets of the message body.

    0x00 {"net": None | n}           6.4.1  optional 2-octet DNET
    0x01/0x04/0x05 {"nets": [...]}   6.4.2/5/6  zero or more 2-octet DNETs
    0x02 {"net", "perf"}             6.4.3  DNET, 1-octet performance index
    0x03 {"reason", "dnet"}          6.4.4  1-octet reason, DNET
    0x06/0x07 {"table": [(dnet, port id, port info)]}   6.4.7/8 number of ports, then per port
                                     DNET, port id, port info length, port info
    0x08 {"dnet", "term"}            6.4.9  DNET, 1-octet termination time
    0x09 {"dnet"}                    6.4.10
    0x12 {}                          6.4.19
    0x13 {"net", "flag"}             6.4.20 network number, 1-octet flag
    """
    if msg == WHO_IS_ROUTER:
        return b"" if p["net"] is None else u16(p["net"])
    if msg in _LISTS:
        return b"".join(u16(n) for n in p["nets"])
    if msg == I_COULD_BE_ROUTER:
        return u16(p["net"]) + bytes([p["perf"]])
    if msg == REJECT_MESSAGE:
        return bytes([p["reason"]]) + u16(p["dnet"])
    if msg in _TABLES:
        out = bytes([len(p["table"])])
        for dnet, port, info in p["table"]:
            out += u16(dnet) + bytes([port, len(info)]) + bytes(info)
        return out
    if msg == ESTABLISH_CONNECTION:
        return u16(p["dnet"]) + bytes([p["term"]])
    if msg == DISCONNECT_CONNECTION:
        return u16(p["dnet"])
    if msg == WHAT_IS_NETWORK_NUMBER:
        return b""
    if msg == NETWORK_NUMBER_IS:
        return u16(p["net"]) + bytes([p["flag"]])
    raise ValueError("no such message 0x%02X" % msg)


def decode_body(msg, body):
    """-> (OK, params, trailing octets) | (REFUSE, None, reason).

    Trailing octets after a complete fixed-size body are reported, not judged."""
    b = bytes(body)
    n = len(b)

    def g16(i):
        return (b[i] << 8) | b[i + 1]

    if msg == WHO_IS_ROUTER:
        if n == 0:
            return OK, {"net": None}, b""
        if n < 2:
            return REFUSE, None, "truncated:network-number"
        return OK, {"net": g16(0)}, b[2:]
    if msg in _LISTS:
        if n % 2:
            return REFUSE, None, "truncated:network-number"
        return OK, {"nets": [g16(i) for i in range(0, n, 2)]}, b""
    if msg == I_COULD_BE_ROUTER:
        if n < 3:
            return REFUSE, None, "truncated:body"
        return OK, {"net": g16(0), "perf": b[2]}, b[3:]
    if msg == REJECT_MESSAGE:
        if n < 3:
            return REFUSE, None, "truncated:body"
        return OK, {"reason": b[0], "dnet": g16(1)}, b[3:]
    if msg in _TABLES:
        if n < 1:
            return REFUSE, None, "truncated:number-of-ports"
        count = b[0]
        pos = 1
        table = []
        for _ in range(count):
            if n < pos + 4:
                return REFUSE, None, "truncated:port-entry"
            dnet, port, ilen = g16(pos), b[pos + 2], b[pos + 3]
            pos += 4
            if n < pos + ilen:
                return REFUSE, None, "truncated:port-info"
            table.append((dnet, port, b[pos:pos + ilen]))
            pos += ilen
        return OK, {"table": table}, b[pos:]
    if msg == ESTABLISH_CONNECTION:
        if n < 3:
            return REFUSE, None, "truncated:body"
        return OK, {"dnet": g16(0), "term": b[2]}, b[3:]
    if msg == DISCONNECT_CONNECTION:
        if n < 2:
            return REFUSE, None, "truncated:body"
        return OK, {"dnet": g16(0)}, b[2:]
    if msg == WHAT_IS_NETWORK_NUMBER:
        return OK, {}, b
    if msg == NETWORK_NUMBER_IS:
        if n < 3:
            return REFUSE, None, "truncated:body"
        return OK, {"net": g16(0), "flag": b[2]}, b[3:]
    raise ValueError("no such message 0x%02X" % msg)
