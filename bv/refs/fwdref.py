"""Reference forwarding model of a BACnet internetwork (property C06) -- no bacpypes import.

An internetwork is a bipartite graph of networks and routers.  Written from clause 6 of the standard
and from the property statement, deliberately boring:

* a unicast reaches the station that owns (network, MAC) and nobody else; a local broadcast reaches the
  other stations of the sender's network; a remote broadcast those of the named network; a global
  broadcast every other station;
* what a recipient is shown as source: the bare MAC when both are on one network, otherwise
  (originator's network number, originator's MAC);
* on the wire (loop-free case) the packet travels the unique path: leg i (0 = the sender's LAN) carries
  hop count 255 - i while DNET is present, SNET/SADR from leg 1 on, and no DNET on the final leg of a
  unicast / remote broadcast (clause 6.5.4);
* a frame injected with initial hop count h passes router i of its path iff it arrives there with a
  positive count.

Also here: canonical enumeration of unlabeled network/router trees (AHU encoding), concrete numbering
of a shape (network numbers, MACs, port order), shortest-path next hops for pre-set routing tables and
an NPDU builder for crafted frames (clause 6.2).

Topology (json-able dict):
    {"nets": [netnum, ...], "routers": [[[net index, mac], ...], ...], "stations": [[net index, mac], ...],
     "label": str, "cyclic": bool, "apps": [position of the home port in the router's port list or None, ...] (optional)}

* a router may carry an application ("apps"): that application is a station of the home network at the MAC of
  the home port -- it is addressed, it receives the broadcasts of that network and the global ones, and it
  originates and answers like any other station; the router part forwards as before.
"""
import itertools

# --------------------------------------------------------------------------- shapes


def _canon_tree(n_nets, routers, labels, rlabels=None):
    """AHU canonical form of the bipartite tree, networks labelled by labels[i] (routers by rlabels[j])."""
    adj = {}
    for i in range(n_nets):
        adj[("N", i)] = []
    for j, ports in enumerate(routers):
        adj[("R", j)] = []
        for i in ports:
            adj[("R", j)].append(("N", i))
            adj[("N", i)].append(("R", j))

    def enc(node, parent):
        lab = ("N", labels[node[1]]) if node[0] == "N" else ("R", rlabels[node[1]] if rlabels else 0)
        return (lab, tuple(sorted(enc(c, node) for c in adj[node] if c != parent)))

    return min(enc(root, None) for root in adj)


def tree_shapes(min_nets, max_nets, min_ports=2, max_ports=4):
    """All unlabeled trees of min..max networks joined by routers of min_ports..max_ports ports.

    Every such tree can be grown from one network by repeatedly hanging a router with k-1 fresh leaf
    networks onto an existing network (remove a deepest router and its leaf children to go back), so the
    growth below is complete; duplicates are removed by canonical form.  -> list of (n_nets, routers)
    ordered by (networks, routers)."""
    seen = {}
    frontier = [(1, ())]
    done = set()
    while frontier:
        nxt = []
        for (n, routers) in frontier:
            for at in range(n):
                for k in range(min_ports, max_ports + 1):
                    n2 = n + k - 1
                    if n2 > max_nets:
                        continue
                    r2 = routers + ((at,) + tuple(range(n, n2)),)
                    key = _canon_tree(n2, r2, [0] * n2)
                    if key in done:
                        continue
                    done.add(key)
                    seen[key] = (n2, r2)
                    nxt.append((n2, r2))
        frontier = nxt
    out = [v for v in seen.values() if v[0] >= min_nets]
    out.sort(key=lambda v: (v[0], len(v[1]), v[1]))
    return out


def station_vectors(n_nets, routers, counts=(1, 2), one_big=None):
    """Station-count vectors per network up to automorphism of the tree.  one_big=3 additionally allows
    exactly one network to carry 3 stations."""
    vecs = list(itertools.product(counts, repeat=n_nets))
    if one_big is not None:
        for base in itertools.product(counts, repeat=n_nets):
            for i in range(n_nets):
                v = list(base)
                v[i] = one_big
                vecs.append(tuple(v))
    seen = set()
    out = []
    for v in vecs:
        key = _canon_tree(n_nets, routers, list(v))
        if key in seen:
            continue
        seen.add(key)
        out.append(v)
    out.sort(key=lambda v: (sum(v), v))
    return out


def app_placements(n_nets, routers, counts):
    """Where one router of the tree can carry an application: (router, position of its home port), one
    representative per class of the tree's automorphisms (station counts kept)."""
    seen = set()
    out = []
    for j, ports in enumerate(routers):
        for h, ni in enumerate(ports):
            labels = [(c, 0) for c in counts]
            labels[ni] = (counts[ni], 1)
            key = _canon_tree(n_nets, routers, labels, [1 if x == j else 0 for x in range(len(routers))])
            if key in seen:
                continue
            seen.add(key)
            out.append((j, h))
    return out


NETNUM_SETS = (
    (1, 2, 3, 4, 5, 6),
    (700, 2, 65534, 256, 5, 1000),
    (40000, 255, 3, 4096, 12, 7),
)


def concrete(n_nets, routers, counts, seed=0, label="", cyclic=False, apps=None):
    """Number a shape: network numbers, MACs, router port order.  `seed` only rotates these leaf values:
    which number a network gets, where the MAC range starts, in which order a router's ports are bound.
    The same MAC values are reused on every network on purpose (a station of one network has the MAC of
    a router port or station of another), so ignoring the network number shows.
    apps: {router: position (in the shape's port tuple) of the port its application lives on}: that router is a
    router *and* a station of that network, at the MAC of that port."""
    numbers = NETNUM_SETS[seed % len(NETNUM_SETS)]
    rot = (seed // len(NETNUM_SETS)) % len(numbers)
    numbers = numbers[rot:] + numbers[:rot]
    nets = [numbers[i] for i in range(n_nets)]
    base = (1, 0x21, 0xF0)[seed % 3]
    next_mac = [base] * n_nets
    stations = []
    for i in range(n_nets):
        for _ in range(counts[i]):
            stations.append([i, next_mac[i]])
            next_mac[i] += 1
    rts = []
    for ports in routers:
        ports = list(ports)
        if seed % 2:
            ports.reverse()
        r = []
        for i in ports:
            r.append([i, next_mac[i]])
            next_mac[i] += 1
        rts.append(r)
    topo = {"nets": nets, "routers": rts, "stations": stations, "label": label, "cyclic": bool(cyclic)}
    if apps:
        # position of the home port in the (possibly reversed) concrete port list
        topo["apps"] = [None] * len(rts)
        for j, h in apps.items():
            topo["apps"][j] = [p[0] for p in rts[j]].index(routers[j][h])
    return topo


def shape_label(n_nets, routers, counts):
    return "n%d:%s:s%s" % (n_nets, "/".join("".join(str(i) for i in r) for r in routers), "".join(str(c) for c in counts))


def ring(n, counts, seed=0, tail=False):
    """Ring of n networks and n two-port routers (router j joins network j and j+1); tail=True hangs one
    more network with one station onto network 0 through a further two-port router."""
    routers = [(j, (j + 1) % n) for j in range(n)]
    n_nets = n
    counts = list(counts)
    if tail:
        routers.append((0, n))
        n_nets = n + 1
        counts = counts + [1]
    return concrete(n_nets, routers, counts, seed, label="ring%d%s:s%s" % (n, "+tail" if tail else "", "".join(map(str, counts))),
                    cyclic=True)


# --------------------------------------------------------------------------- the reference


class Ref(object):
    def __init__(self, topo):
        self.topo = topo
        self.nets = list(topo["nets"])
        self.routers = [[(p[0], p[1]) for p in r] for r in topo["routers"]]
        self.stations = [(s[0], s[1]) for s in topo["stations"]]
        self.cyclic = bool(topo.get("cyclic"))
        # who owns a MAC on a network
        self.owner = {}
        for k, (ni, mac) in enumerate(self.stations):
            self.owner[(ni, mac)] = ("S", k)
        for j, r in enumerate(self.routers):
            for (ni, mac) in r:
                self.owner[(ni, mac)] = ("R", j)
        self.net_index = {num: i for i, num in enumerate(self.nets)}
        # a router that carries an application is also a station of its home network, at the MAC of that port;
        # these stations are numbered after the plain ones (the frames they emit still come from a router's MAC)
        self.n_plain = len(self.stations)
        self.app_router = {}        # station index -> router
        self.router_app = {}        # router -> station index
        for j, h in enumerate(topo.get("apps") or []):
            if h is not None:
                self.app_router[len(self.stations)] = j
                self.router_app[j] = len(self.stations)
                self.stations.append(self.routers[j][h])

    # -- graph
    def routers_on(self, ni):
        return [j for j, r in enumerate(self.routers) if any(p[0] == ni for p in r)]

    def router_mac(self, j, ni):
        for (n, mac) in self.routers[j]:
            if n == ni:
                return mac
        raise KeyError((j, ni))

    def paths_from(self, src_net):
        """Breadth-first over networks: {net: [src_net, ..., net]} (shortest, first found in index order)."""
        path = {src_net: [src_net]}
        via = {src_net: []}
        order = [src_net]
        for ni in order:
            for j in self.routers_on(ni):
                for (n2, _) in self.routers[j]:
                    if n2 not in path:
                        path[n2] = path[ni] + [n2]
                        via[n2] = via[ni] + [j]
                        order.append(n2)
        return path, via

    def distance(self, a, b):
        """Number of routers between network a and network b."""
        return len(self.paths_from(a)[0][b]) - 1

    # -- who receives
    def stations_on(self, ni):
        return [k for k, s in enumerate(self.stations) if s[0] == ni]

    def free_mac(self, ni):
        used = set(m for (n, m) in self.owner if n == ni)
        m = 200
        while m in used:
            m += 1
        return m

    def recipients(self, src, dest):
        """dest: ("u", station, form) ("ua", net, mac, form) ("lb",) ("rb", net) ("gb",) ("xn", netnum)."""
        kind = dest[0]
        sn = self.stations[src][0]
        if kind == "u":
            return [dest[1]] if dest[1] != src else []
        if kind in ("ua", "xn"):
            return []
        if kind == "lb":
            return [k for k in self.stations_on(sn) if k != src]
        if kind == "rb":
            return [k for k in self.stations_on(dest[1]) if k != src]
        if kind == "gb":
            return [k for k in range(len(self.stations)) if k != src]
        raise ValueError(dest)

    def target_nets(self, src, dest):
        kind = dest[0]
        sn = self.stations[src][0]
        if kind == "u":
            return [self.stations[dest[1]][0]]
        if kind == "ua":
            return [dest[1]]
        if kind == "lb":
            return [sn]
        if kind == "rb":
            return [dest[1]]
        if kind == "gb":
            return list(range(len(self.nets)))
        return []

    def shown_sources(self, src, rcpt):
        """Acceptable source addresses shown to station rcpt for a packet originated by station src, as
        (kind, network number or None, MAC octets).  On one network the bare MAC is enough for a reply (and
        a correct (net, MAC) would be too); across routers only (originator's network, originator's MAC) is."""
        (sn, smac) = self.stations[src]
        (rn, _) = self.stations[rcpt]
        full = ("rs", self.nets[sn], bytes([smac]))
        if sn == rn:
            return (("ls", None, bytes([smac])), full)
        return (full,)

    # -- the wire, loop-free case
    def legs(self, src, dest):
        """Expected payload-carrying frames of a loop-free internetwork:
        {net index: dict(hop=int or None, dnet=.., dadr=.., snet=.., sadr=.., mac_dst="bcast" or mac)}.
        dnet 0xFFFF for global; None where the DNET field must be absent."""
        if self.cyclic:
            raise ValueError("legs() is defined for loop-free topologies only")
        (sn, smac) = self.stations[src]
        path, via = self.paths_from(sn)
        kind = dest[0]
        out = {}
        if kind == "lb":
            out[sn] = {"hop": None, "dnet": None, "dadr": None, "snet": None, "sadr": None, "mac_dst": "bcast"}
            return out
        if kind == "gb":
            for ni, p in path.items():
                i = len(p) - 1
                out[ni] = {"hop": 255 - i, "dnet": 0xFFFF, "dadr": b"", "snet": self.nets[sn] if i else None,
                           "sadr": bytes([smac]) if i else None, "mac_dst": "bcast"}
            return out
        if kind == "xn":
            return out      # frames for a network nobody routes to: none carries the payload
        if kind == "u":
            tn, tmac = self.stations[dest[1]]
        elif kind == "ua":
            tn, tmac = dest[1], dest[2]
        else:
            tn, tmac = dest[1], None
        p = path[tn]
        rts = via[tn]
        if kind == "u" and dest[1] in self.app_router and rts and rts[-1] == self.app_router[dest[1]]:
            # the addressed application lives in the last router of the path: the packet is at home when it
            # reaches that router (still carrying DNET/DADR), nothing is put on the application's own network
            for i, ni in enumerate(p[:-1]):
                out[ni] = {"snet": self.nets[sn] if i else None, "sadr": bytes([smac]) if i else None, "hop": 255 - i,
                           "dnet": self.nets[tn], "dadr": bytes([tmac]), "mac_dst": self.router_mac(rts[i], ni)}
            return out
        for i, ni in enumerate(p):
            last = (i == len(p) - 1)
            leg = {"snet": self.nets[sn] if i else None, "sadr": bytes([smac]) if i else None}
            if last:
                leg.update({"hop": None, "dnet": None, "dadr": None, "mac_dst": tmac if tmac is not None else "bcast"})
            else:
                leg.update({"hop": 255 - i, "dnet": self.nets[tn], "dadr": bytes([tmac]) if tmac is not None else b"",
                            "mac_dst": self.router_mac(rts[i], ni)})
            out[ni] = leg
        return out

    # -- crafted initial hop counts
    def hop_reach(self, src, rcpt, h):
        """A frame put on the sender's LAN with hop count h and a DNET: does it reach station rcpt?
        'yes' / 'no' / 'either'.  Router i (1-based) of the path sees h-(i-1); it must not forward at 0, so
        k routers need h >= k.  A router that discards when the count *becomes* 0 (clause 6.5.4 wording)
        needs h >= k+1, so h == k is left open."""
        k = self.distance(self.stations[src][0], self.stations[rcpt][0])
        if k == 0:
            return "yes"
        if h >= k + 1:
            return "yes"
        if h < k:
            return "no"
        return "either"

    # -- pre-set routing tables (shortest path, deterministic ties)
    def routing_tables(self):
        """-> (per router: [(via net index, next router MAC, destination net index)],
               per station: [(next router MAC, destination net index)])"""
        rt = []
        for j, r in enumerate(self.routers):
            own = [p[0] for p in r]
            best = {}
            for ni in own:
                path, via = self.paths_from(ni)
                for tn, p in path.items():
                    if tn in own:
                        continue
                    # the first router on the way must not be ourselves
                    if via[tn][0] == j:
                        continue
                    cand = (len(p), ni, via[tn][0])
                    if tn not in best or cand < best[tn]:
                        best[tn] = cand
            rt.append([(ni, self.router_mac(nx, ni), tn) for tn, (_, ni, nx) in sorted(best.items())])
        st = []
        for (sn, _) in self.stations:
            path, via = self.paths_from(sn)
            st.append([(self.router_mac(via[tn][0], sn), tn) for tn in sorted(path) if tn != sn])
        return rt, st


# --------------------------------------------------------------------------- what a node has been shown (lossy LANs)


def iam_router_nets(n):
    """Network numbers listed by an I-Am-Router-To-Network message (clause 6.4.2); n: independent NPCI parse."""
    if n.get("netmsg") != 1:
        return []
    p = n["payload"]
    return [(p[i] << 8) | p[i + 1] for i in range(0, len(p) - 1, 2)]


def path_shown(ref, frames, delivered, k, ni):
    """When an I-Am-Router-To-Network may be lost (nobody repeats it) a node can be left without a way to a network
    through no fault of its own.  This says whether station k *has* been shown the way to network ni by what its LAN
    really delivered to it: an I-Am-Router-To-Network naming the network (6.4.2), or a routed frame whose SNET is that
    network (6.2.2: SNET/SADR name the originator, the MAC source is the router that leads back to it; in a tree every
    router on that way has handled the same frame).  -> None or "announcement" / "routed-traffic" (the first seen).
    frames: dicts with net, src, dst, serial, n (independent NPCI parse); delivered: serials that were delivered."""
    (on, mac) = ref.stations[k]
    for f in frames:
        if f["net"] != on or f["serial"] not in delivered or f["dst"] not in ("*", str(mac)) or f["src"] == str(mac):
            continue
        if ref.nets[ni] in iam_router_nets(f["n"]):
            return "announcement"
        if f["n"].get("snet") == ref.nets[ni]:
            return "routed-traffic"
    return None


# --------------------------------------------------------------------------- NPDU builder (clause 6.2)


def build_npdu(apdu, dnet=None, dadr=b"", snet=None, sadr=b"", hop=255, expecting_reply=False, priority=0):
    ctl = (0x20 if dnet is not None else 0) | (0x08 if snet is not None else 0) | (0x04 if expecting_reply else 0) | (priority & 3)
    out = bytearray([0x01, ctl])
    if dnet is not None:
        out += bytes([(dnet >> 8) & 0xFF, dnet & 0xFF, len(dadr)]) + bytes(dadr)
    if snet is not None:
        out += bytes([(snet >> 8) & 0xFF, snet & 0xFF, len(sadr)]) + bytes(sadr)
    if dnet is not None:
        out.append(hop & 0xFF)
    out += bytes(apdu)
    return bytes(out)
