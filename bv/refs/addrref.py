"""Reference reading of BACnet address notations (property C18).

Written from the statement of C18 and from the addressing rules of the standard:

* clause 6.2.2 (NPCI): a network number is a 2-octet unsigned value, 65535 (X'FFFF') is the
  *global broadcast* network and therefore not the number of a network; DLEN = 0 denotes a
  broadcast on the given network; a MAC address is a string of octets;
* MS/TP / ARCNET station numbers are one octet (0..255);
* Annex J.1.2: a B/IP address is the 4-octet IPv4 address followed by the 2-octet UDP port,
  both most significant octet first; the default port is X'BAC0' = 47808.

All IP arithmetic (address word, mask, subnet, host part, directed broadcast) is done by the stdlib
`ipaddress` module.  Nothing in this file imports or calls bacpypes.

A notation is given as a *spec* (plain tuples, JSON-able):

    (ctor, arg, ...)     ctor in Address, LocalStation, RemoteStation, LocalBroadcast, RemoteBroadcast,
                         GlobalBroadcast;  each arg is a tagged value
                         ("i", int) ("s", text) ("b", octets) ("ba", octets -> bytearray)
                         ("t", ("s", host) | ("i", word), port)

`denote(spec)` answers one of

    Verdict("ok", denotation=Denotation(...))   the notation is one the statement lists: this is what it denotes
    Verdict("refuse", reason=...)               the statement (or the plain meaning of the notation) says it must
                                                be refused: number out of range, or text that is no address at all
    Verdict("unlisted", reason=...)             not in the statement's list of notations (interface names,
                                                Ethernet colon form, '*:5', leading-zero IP octets, ...): no verdict

Routes.  The text forms take a suffix `@route` and the typed constructors an argument `route=` (tagged
("r", ctor, arg): route=ctor(arg)); the route names the local station through which the address is reached.
The statement is about the default configuration, in which the stack is *not* route aware.  What that implies
is stated here and nowhere else:

* the route does not change which station / broadcast is addressed: type, network and octets (and the IP
  values) are those of the notation without the route; the denotation carries the route's octets next to them
  (`Denotation.route`) so that the check can tell "same address, same route" (`full_key`) from "same address,
  another or no route";
* a route is a local station written as a station number, as 0x octets or as dotted IPv4 with optional port
  (what a route-less local station can be written as, minus the forms the library does not take after '@');
  a station number / port / IP octet out of range after '@' is as wrong as in front of it;
* whether two spellings of one address with different routes (or one with and one without) are *equal* is not
  stated - it is for the check to demand that whatever `==` answers is an equivalence relation and agrees with
  `hash`; two spellings of one address with the same route denote the same thing and must be equal.
"""
import ipaddress
import socket
from collections import namedtuple

LOCAL_BROADCAST = "local-broadcast"
LOCAL_STATION = "local-station"
REMOTE_BROADCAST = "remote-broadcast"
REMOTE_STATION = "remote-station"
GLOBAL_BROADCAST = "global-broadcast"

MAX_NET = 65534             # 65535 is the global broadcast network
MAX_STATION = 255
MAX_PORT = 65535
MAX_MASK = 32
DEFAULT_PORT = 0xBAC0
MIN_OCTETS, MAX_OCTETS = 1, 7       # the lengths the statement quantifies over

# kind, net (None for local/global), octets (None for broadcasts), ip (IPInfo or None), shape (printable family)
# route: octets of the local station named by an @route suffix / route= argument, None without one
Denotation = namedtuple("Denotation", "kind net octets ip shape route", defaults=(None,))
# word/port always; masklen None when the notation carries no mask information (tuples, raw octets):
# then mask/subnet/host/broadcast are None too ("not denoted")
IPInfo = namedtuple("IPInfo", "dotted word port masklen mask subnet host broadcast")


class Verdict(object):
    __slots__ = ("status", "denotation", "reason")

    def __init__(self, status, denotation=None, reason=None):
        self.status = status
        self.denotation = denotation
        self.reason = reason

    def __repr__(self):
        if self.status == "ok":
            return "ok %r" % (self.denotation,)
        return "%s (%s)" % (self.status, self.reason)


def _ok(kind, net, octets, ip, shape, route=None):
    return Verdict("ok", Denotation(kind, net, octets, ip, shape, route))


def _refuse(reason):
    return Verdict("refuse", reason=reason)


def _unlisted(reason):
    return Verdict("unlisted", reason=reason)


def class_key(den):
    """Two notations denote the same address iff type, network and station octets agree
    (a mask says where the station sits in its subnet, not which station it is)."""
    return (den.kind, den.net, den.octets)


def full_key(den):
    """class_key plus the route: two notations with the same full key denote the same thing in every respect"""
    return (den.kind, den.net, den.octets, den.route)


# ------------------------------------------------------------------ IP arithmetic (stdlib ipaddress)

def ip_info(dotted, port, masklen):
    """dotted: strict dotted quad; masklen None = no mask information."""
    ip = ipaddress.IPv4Address(dotted)
    if masklen is None:
        return IPInfo(str(ip), int(ip), port, None, None, None, None, None)
    iface = ipaddress.IPv4Interface("%s/%d" % (dotted, masklen))
    net = iface.network
    return IPInfo(
        dotted=str(ip),
        word=int(ip),
        port=port,
        masklen=masklen,
        mask=int(iface.netmask),
        subnet=int(net.network_address),
        host=int(ip) & int(iface.hostmask),
        broadcast=str(net.broadcast_address),
    )


def bip_octets(dotted, port):
    """Annex J.1.2: 4 octets of IP address, 2 octets of UDP port, most significant octet first."""
    return ipaddress.IPv4Address(dotted).packed + bytes([port >> 8, port & 0xFF])


def word_to_dotted(word):
    return str(ipaddress.IPv4Address(word))


# ------------------------------------------------------------------ text

_DIGITS = frozenset("0123456789")
_HEXDIGITS = frozenset("0123456789abcdefABCDEF")
_WORDCHARS = frozenset("abcdefghijklmnopqrstuvwxyzABCDEFGHIJKLMNOPQRSTUVWXYZ0123456789_")


def _is_dec(s):
    return len(s) > 0 and all(c in _DIGITS for c in s)


def _is_word(s):
    return len(s) > 0 and all(c in _WORDCHARS for c in s)


_IFACES = None


def _interface_names():
    """names of this machine's network interfaces (the library accepts them when netifaces is installed)"""
    global _IFACES
    if _IFACES is None:
        try:
            _IFACES = frozenset(name for _, name in socket.if_nameindex())
        except OSError:
            _IFACES = frozenset()
    return _IFACES


def _hex_body(s):
    """'0x..' / "X'..'" -> octets | Verdict | None (not hex shaped)"""
    if s[:2] == "0x":
        digits = s[2:]
    elif s[:2] == "0X":
        return _unlisted("upper-case 0X prefix")
    elif s[:2] == "X'":
        if len(s) < 3 or s[-1] != "'":
            return _refuse("malformed: unterminated X'' string")
        digits = s[2:-1]
    elif s[:2] == "x'":
        return _unlisted("lower-case x'' prefix")
    else:
        return None
    if not digits or not all(c in _HEXDIGITS for c in digits):
        return _refuse("malformed: hex digits expected")
    if len(digits) % 2:
        return _refuse("malformed: odd number of hex digits")
    return bytes(int(digits[i:i + 2], 16) for i in range(0, len(digits), 2))


def _ip_body(s):
    """'a.b.c.d' or 'a.b.c.d/len' -> (dotted, masklen|None) | Verdict"""
    pieces = s.split("/")
    if len(pieces) > 2:
        return _refuse("malformed: more than one '/'")
    quad = pieces[0].split(".")
    if len(quad) != 4 or not all(_is_dec(q) for q in quad):
        return _refuse("malformed: dotted quad expected")
    masklen = None
    if len(pieces) == 2:
        if not _is_dec(pieces[1]):
            return _refuse("malformed: mask length expected")
        masklen = int(pieces[1])
    # malformed pieces come before ranges; ranges before the leading-zero question
    if any(int(q) > 255 for q in quad):
        return _refuse("range: ip octet above 255")
    if masklen is not None and masklen > MAX_MASK:
        return _refuse("range: mask length above 32")
    if any(len(q) > 1 and q[0] == "0" for q in quad):
        return _unlisted("ip octet with leading zero (octal or decimal?)")
    return (".".join(quad), masklen)


def denote_text(s):
    """What a text spelling denotes."""
    if s == "*":
        return _ok(LOCAL_BROADCAST, None, None, None, "*")
    if s == "*:*":
        return _ok(GLOBAL_BROADCAST, None, None, None, "*:*")
    if any(ord(c) > 126 for c in s):
        return _unlisted("non-ASCII text")
    if s != s.strip():
        return _unlisted("surrounding white space")
    if "@" in s:
        return _denote_routed_text(s)
    if s == "":
        return _refuse("malformed: empty text")

    parts = s.split(":")

    # Ethernet colon form and interface names are accepted by the library but not listed in the statement
    if len(parts) == 6 and all(len(p) == 2 and all(c in _HEXDIGITS for c in p) for p in parts):
        return _unlisted("ethernet colon form")
    if len(parts) <= 2 and _is_word(parts[0]) and (len(parts) == 1 or _is_dec(parts[1])):
        if parts[0] in _interface_names():
            return _unlisted("interface name")

    net_txt = port_txt = None
    if len(parts) == 1:
        body = parts[0]
    elif len(parts) == 2:
        if "." in parts[0]:
            body, port_txt = parts
        else:
            net_txt, body = parts
    elif len(parts) == 3:
        net_txt, body, port_txt = parts
    else:
        return _refuse("malformed: too many ':'")

    # --- network prefix
    net = None
    if net_txt is not None:
        if net_txt == "*":
            return _unlisted("'*:' prefix in front of something that is not '*'")
        if not _is_dec(net_txt):
            return _refuse("malformed: network number expected before ':'")
        net = int(net_txt)

    # --- body
    if body == "*":
        kind_body = ("bcast", None)
    elif _is_dec(body):
        kind_body = ("station", int(body))
    elif "." in body:
        r = _ip_body(body)
        if isinstance(r, Verdict) and r.status == "refuse":
            return r
        kind_body = ("ip", r)
    else:
        r = _hex_body(body)
        if r is None:
            return _refuse("malformed: not an address")
        if isinstance(r, Verdict) and r.status == "refuse":
            return r
        kind_body = ("octets", r)

    # --- port
    port = None
    if port_txt is not None:
        if kind_body[0] != "ip":
            return _refuse("malformed: port after something that is not an IP address")
        if not _is_dec(port_txt):
            return _refuse("malformed: port number expected")
        port = int(port_txt)

    # --- ranges (the statement: nets above 65534 and stations above 255 are refused; a UDP port is 16 bits)
    if net is not None and net > MAX_NET:
        return _refuse("range: network above 65534")
    if kind_body[0] == "station" and kind_body[1] > MAX_STATION:
        return _refuse("range: station above 255")
    if port is not None and port > MAX_PORT:
        return _refuse("range: port above 65535")

    # --- plausible extensions found in the body
    if isinstance(kind_body[1], Verdict):
        return kind_body[1]

    remote = net is not None
    pre = "net:" if remote else ""
    if kind_body[0] == "bcast":
        return _ok(REMOTE_BROADCAST, net, None, None, "net:*")
    if kind_body[0] == "station":
        return _ok(REMOTE_STATION if remote else LOCAL_STATION, net, bytes([kind_body[1]]), None, pre + "station")
    if kind_body[0] == "octets":
        octets = kind_body[1]
        if not (MIN_OCTETS <= len(octets) <= MAX_OCTETS):
            return _unlisted("octet string longer than 7")
        shape = pre + ("0x" if body[:2] == "0x" else "X''")
        return _ok(REMOTE_STATION if remote else LOCAL_STATION, net, octets, None, shape)
    dotted, masklen = kind_body[1]
    if port is None:
        port = DEFAULT_PORT
    info = ip_info(dotted, port, MAX_MASK if masklen is None else masklen)
    shape = pre + "ip" + ("/mask" if masklen is not None else "") + (":port" if port_txt is not None else "")
    return _ok(REMOTE_STATION if remote else LOCAL_STATION, net, bip_octets(dotted, port), info, shape)


# ------------------------------------------------------------------ text with an @route suffix

def _denote_route_text(r):
    """the text after '@' -> octets of the local station it names | Verdict"""
    if r == "":
        return _refuse("malformed: nothing after '@'")
    if _is_dec(r):
        if int(r) > MAX_STATION:
            return _refuse("range: station above 255 (route)")
        return bytes([int(r)])
    if r[:2] in ("0x", "0X"):
        o = _hex_body(r)
        if isinstance(o, Verdict):
            return o
        if not (MIN_OCTETS <= len(o) <= MAX_OCTETS):
            return _unlisted("route octet string longer than 7")
        return o
    quad_port = r.split(":")
    if "." in quad_port[0] and len(quad_port) <= 2 and all(c in _DIGITS or c in "./" for c in quad_port[0]):
        body = _ip_body(quad_port[0])
        if isinstance(body, Verdict) and body.status == "refuse":
            return body
        port = DEFAULT_PORT
        if len(quad_port) == 2:
            if not _is_dec(quad_port[1]):
                return _refuse("malformed: port number expected (route)")
            port = int(quad_port[1])
            if port > MAX_PORT:
                return _refuse("range: port above 65535 (route)")
        if isinstance(body, Verdict):
            return body
        dotted, masklen = body
        if masklen is not None:
            return _unlisted("route with a mask")
        return bip_octets(dotted, port)
    return _unlisted("route that is not a station number, 0x octets or dotted IPv4")


def _denote_routed_text(s):
    """'<address>@<route>': the address as without the suffix, and the route next to it"""
    left, _, right = s.partition("@")
    if "@" in right:
        return _refuse("malformed: more than one '@'")
    if left == "":
        return _refuse("malformed: nothing in front of '@'")
    vl = denote_text(left)
    route = _denote_route_text(right)
    if vl.status == "refuse":
        return vl
    if isinstance(route, Verdict) and route.status == "refuse":
        return route
    if vl.status != "ok":
        return vl
    if isinstance(route, Verdict):
        return route
    d = vl.denotation
    if "X'" in left:
        return _unlisted("X'' octets with a route suffix")
    if len(route) == 1:
        rshape = "@station"
    elif "." in right:
        rshape = "@ip"
    else:
        rshape = "@0x"
    return _ok(d.kind, d.net, d.octets, d.ip, d.shape + rshape, route)


# ------------------------------------------------------------------ other notations

def denote_station_number(n):
    if isinstance(n, bool) or not isinstance(n, int):
        return _unlisted("station number that is not an int")
    if n < 0 or n > MAX_STATION:
        return _refuse("range: station number outside 0..255")
    return _ok(LOCAL_STATION, None, bytes([n]), None, "int")


def denote_octets(b):
    b = bytes(b)
    if not (MIN_OCTETS <= len(b) <= MAX_OCTETS):
        return _unlisted("octet string of length %d" % len(b))
    ip = None
    if len(b) == 6:
        # a 6-octet MAC may be read as a B/IP address: word and port are denoted, no mask information
        ip = ip_info(word_to_dotted(int.from_bytes(b[:4], "big")), int.from_bytes(b[4:], "big"), None)
    return _ok(LOCAL_STATION, None, b, ip, "octets[%d]" % len(b))


def denote_tuple(host, port):
    """host: ("s", dotted) or ("i", word)"""
    if isinstance(port, bool) or not isinstance(port, int):
        return _unlisted("port that is not an int")
    tag, val = host
    if tag == "s":
        quad = val.split(".")
        if len(quad) != 4 or not all(_is_dec(q) for q in quad):
            return _unlisted("host that is not a dotted quad ('' = any, names)")
        if any(int(q) > 255 for q in quad):
            return _refuse("range: ip octet above 255")
        if any(len(q) > 1 and q[0] == "0" for q in quad):
            return _unlisted("ip octet with leading zero")
        dotted = val
    elif tag == "i":
        if val < 0 or val > 0xFFFFFFFF:
            return _unlisted("address word outside 32 bits")
        dotted = word_to_dotted(val)
    else:
        return _unlisted("host of unknown kind")
    if port < 0:
        return _unlisted("negative port")
    if port > MAX_PORT:
        return _refuse("range: port above 65535")
    return _ok(LOCAL_STATION, None, bip_octets(dotted, port), ip_info(dotted, port, None), "tuple(%s)" % tag)


def _denote_local_arg(arg):
    tag = arg[0]
    if tag == "i":
        return denote_station_number(arg[1])
    if tag == "s":
        return denote_text(arg[1])
    if tag in ("b", "ba"):
        return denote_octets(arg[1])
    if tag == "t":
        return denote_tuple(tuple(arg[1]), arg[2])
    return _unlisted("argument of unknown kind")


def _check_net(net):
    """-> None (fine) or Verdict"""
    if net[0] != "i" or isinstance(net[1], bool):
        return _unlisted("network that is not an int")
    if net[1] < 0 or net[1] > MAX_NET:
        return _refuse("range: network outside 0..65534")
    return None


def _to_remote(net, v, shape):
    if v.status != "ok":
        return v
    d = v.denotation
    if d.kind == LOCAL_STATION:
        return _ok(REMOTE_STATION, net, d.octets, d.ip, shape, d.route)
    if d.kind == LOCAL_BROADCAST:
        return _ok(REMOTE_BROADCAST, net, None, None, shape, d.route)
    return _unlisted("network given twice")


def _denote_with_route_argument(ctor, args):
    """typed constructor with a trailing ("r", route ctor, arg): the address as without it, plus the route"""
    if ctor == "Address" or args[-1][0] != "r" or any(a[0] == "r" for a in args[:-1]) or len(args[-1]) != 3:
        return _unlisted("route= argument in a form the typed constructors do not have")
    _, rctor, rarg = args[-1]
    if rctor not in ("Address", "LocalStation"):
        return _unlisted("route that is not given as Address(...) / LocalStation(...)")
    vr = denote((rctor, tuple(rarg)))
    v = denote((ctor,) + tuple(args[:-1]))
    if v.status == "refuse":
        return v
    if vr.status == "refuse":
        return vr
    if v.status != "ok":
        return v
    if vr.status != "ok":
        return vr
    r = vr.denotation
    if r.kind != LOCAL_STATION or r.route is not None:
        return _unlisted("route that is not a plain local station")
    d = v.denotation
    return _ok(d.kind, d.net, d.octets, d.ip, d.shape[:-1] + (",route)" if len(args) > 1 else "route)"), r.octets)


def denote(spec):
    """What the notation `spec` denotes (see module docstring)."""
    ctor = spec[0]
    args = [tuple(a) for a in spec[1:]]
    if any(a[0] == "r" for a in args):
        return _denote_with_route_argument(ctor, args)
    tags = ",".join(a[0] for a in args)
    shape = "%s(%s)" % (ctor, tags)

    if ctor == "Address":
        if len(args) == 1:
            v = _denote_local_arg(args[0])
            if v.status == "ok" and args[0][0] != "s":
                d = v.denotation
                return _ok(d.kind, d.net, d.octets, d.ip, shape)
            return v
        if len(args) == 2:
            # Address(net, local notation): the same station / broadcast, on network `net`
            v = _denote_local_arg(args[1])
            bad = _check_net(args[0])
            if v.status == "refuse":
                return v
            if bad is not None:
                return bad if v.status == "ok" else v
            return _to_remote(args[0][1], v, shape)
        return _unlisted("constructor form")

    if ctor == "LocalStation" and len(args) == 1:
        if args[0][0] == "i":
            v = denote_station_number(args[0][1])
        elif args[0][0] in ("b", "ba"):
            v = denote_octets(args[0][1])
        else:
            return _unlisted("LocalStation takes a number or octets")
        if v.status != "ok":
            return v
        return _ok(LOCAL_STATION, None, v.denotation.octets, None, shape)

    if ctor == "RemoteStation" and len(args) == 2:
        if args[1][0] == "i":
            v = denote_station_number(args[1][1])
        elif args[1][0] in ("b", "ba"):
            v = denote_octets(args[1][1])
        else:
            return _unlisted("RemoteStation takes a number or octets")
        bad = _check_net(args[0])
        if v.status == "refuse":
            return v
        if bad is not None:
            return bad if v.status == "ok" else v
        if v.status != "ok":
            return v
        return _ok(REMOTE_STATION, args[0][1], v.denotation.octets, None, shape)

    if ctor == "LocalBroadcast" and not args:
        return _ok(LOCAL_BROADCAST, None, None, None, shape)

    if ctor == "RemoteBroadcast" and len(args) == 1:
        bad = _check_net(args[0])
        if bad is not None:
            return bad
        return _ok(REMOTE_BROADCAST, args[0][1], None, None, shape)

    if ctor == "GlobalBroadcast" and not args:
        return _ok(GLOBAL_BROADCAST, None, None, None, shape)

    return _unlisted("constructor form")
