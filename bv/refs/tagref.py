"""tagref - independent reference encoder/decoder of ANSI/ASHRAE 135 clause 20.2.

Written from the clauses, never by calling bacpypes.  Boring on purpose: plain
ints, bytes and tuples.

20.2.1    tag: initial octet = tag number (bits 7..4), class (bit 3, 0 application / 1 context specific),
          length/value/type (bits 2..0).
20.2.1.2  tag numbers 0..14 sit in the nibble; nibble 1111 means "the tag number is in the next octet" (0..254).
20.2.1.3  primitive data: L/V/T 0..4 is the length; 101 means extended: next octet 5..253 is the length;
          254 -> the following two octets are the length (254..65535); 255 -> the following four octets
          (65536..2^32-1).  An application tagged Boolean carries its value in L/V/T and has no contents.
          constructed data: opening tag L/V/T = 110, closing tag L/V/T = 111, class bit set.
20.2.2    Null        no contents
20.2.3    Boolean     application: value in L/V/T; context: one contents octet 0 / 1
20.2.4    Unsigned    binary, most significant octet first, fewest octets (no leading zero octet)
20.2.5    Signed      two's complement, most significant first, fewest octets
20.2.6    Real        ANSI/IEEE 754 single precision, 4 octets, sign/exponent first
20.2.7    Double      ANSI/IEEE 754 double precision, 8 octets
20.2.8    Octet string
20.2.9    Character string   first contents octet = character set (0 UTF-8, 3 UCS-4, 4 UCS-2, 5 ISO 8859-1)
20.2.10   Bit string  first contents octet = number of unused bits (0..7) of the last octet; bits are packed
          from bit 7 downwards; unused bits are zero; the empty string is the single octet 0
20.2.11   Enumerated  as Unsigned
20.2.12   Date        year-1900, month, day, day of week (4 octets)
20.2.13   Time        hour, minute, second, hundredths (4 octets)
20.2.14   Object identifier   10 bit object type, 22 bit instance number, 4 octets

Values on the reference side:
    null None | boolean bool | unsigned/enumerated int | integer int | real/double float |
    octetstring bytes | characterstring (charset, text) | bitstring tuple of 0/1 |
    date/time 4-tuple of octets | objectidentifier (type number, instance number)
"""
import math

APP, CTX, OPEN, CLOSE = 0, 1, 2, 3

NULL, BOOLEAN, UNSIGNED, INTEGER, REAL, DOUBLE, OCTETS, CHARS, BITS, ENUM, DATE, TIME, OBJID = range(13)
KIND_NAMES = ["null", "boolean", "unsigned", "integer", "real", "double", "octetstring", "characterstring",
              "bitstring", "enumerated", "date", "time", "objectidentifier"]


class Unrepresentable(ValueError):
    """The value has no encoding of this type (the encoder must refuse)."""


class Truncated(ValueError):
    """The octets end inside a tag."""


# --------------------------------------------------------------------------- tags (20.2.1)

def tag_header(cls, number, lvt):
    """Octets of a tag without its contents.  lvt is the contents length (or the Boolean value for an
    application tag 1, ignored for opening/closing tags)."""
    if not (0 <= number <= 254):
        raise Unrepresentable("tag number %r" % (number,))
    if cls == OPEN:
        low = 0x0E
    elif cls == CLOSE:
        low = 0x0F
    else:
        if not (0 <= lvt <= 0xFFFFFFFF):
            raise Unrepresentable("length %r" % (lvt,))
        low = (0x08 if cls == CTX else 0x00) | (lvt if lvt <= 4 else 5)
    out = bytearray()
    if number <= 14:
        out.append((number << 4) | low)
    else:
        out.append(0xF0 | low)
        out.append(number)
    if cls in (APP, CTX) and lvt >= 5:
        if lvt <= 253:
            out.append(lvt)
        elif lvt <= 65535:
            out.append(254)
            out.append(lvt >> 8)
            out.append(lvt & 0xFF)
        else:
            out.append(255)
            out.append((lvt >> 24) & 0xFF)
            out.append((lvt >> 16) & 0xFF)
            out.append((lvt >> 8) & 0xFF)
            out.append(lvt & 0xFF)
    return bytes(out)


def encode_tag(cls, number, lvt, data=b""):
    return tag_header(cls, number, lvt) + bytes(data)


def encode_tags(tags):
    return b"".join(encode_tag(*t) for t in tags)


def parse_tag(octets, pos):
    """One tag at octets[pos:] -> ((cls, number, lvt, data), next position, flags).

    Liberal reader of the grammar: non-shortest length escapes are read as they stand (flag 'long-form'),
    L/V/T 110/111 with the class bit clear (reserved by the standard) is read as opening/closing like the
    class-bit-set form (flag 'reserved-lvt').  Raises Truncated when the octets end inside the tag."""
    n = len(octets)
    flags = ()
    if pos >= n:
        raise Truncated("no tag octet")
    first = octets[pos]
    pos += 1
    number = first >> 4
    if number == 15:
        if pos >= n:
            raise Truncated("no extended tag number")
        number = octets[pos]
        pos += 1
        if number < 15:
            flags += ("long-form",)
        if number == 255:
            flags += ("reserved-number",)
    cls = CTX if first & 0x08 else APP
    lvt = first & 0x07
    if lvt == 6 or lvt == 7:
        if cls == APP:
            flags += ("reserved-lvt",)
        return ((OPEN if lvt == 6 else CLOSE), number, 0, b""), pos, flags
    if lvt == 5:
        if pos >= n:
            raise Truncated("no extended length")
        lvt = octets[pos]
        pos += 1
        if lvt == 254:
            if pos + 2 > n:
                raise Truncated("no 2-octet length")
            lvt = (octets[pos] << 8) | octets[pos + 1]
            pos += 2
            if lvt < 254:
                flags += ("long-form",)
        elif lvt == 255:
            if pos + 4 > n:
                raise Truncated("no 4-octet length")
            lvt = (octets[pos] << 24) | (octets[pos + 1] << 16) | (octets[pos + 2] << 8) | octets[pos + 3]
            pos += 4
            if lvt < 65536:
                flags += ("long-form",)
        elif lvt < 5:
            flags += ("long-form",)
    if cls == APP and number == BOOLEAN:
        return (APP, number, lvt, b""), pos, flags
    if pos + lvt > n:
        raise Truncated("contents shorter than the length says")
    return (cls, number, lvt, bytes(octets[pos:pos + lvt])), pos + lvt, flags


def parse_tags(octets):
    """-> (list of tags, set of flags); raises Truncated."""
    octets = bytes(octets)
    pos = 0
    tags = []
    flags = set()
    while pos < len(octets):
        t, pos, f = parse_tag(octets, pos)
        tags.append(t)
        flags.update(f)
    return tags, flags


# --------------------------------------------------------------------------- nesting

class Unbalanced(ValueError):
    pass


def get_context(tags, context):
    """Reference for 'extract by context': scan the top level from the left; a context tag with that number
    is returned as ('tag', index); an opening tag starts a group that runs to its matching closing tag
    (counting levels); the group opened by that number is returned as ('group', [indices of its members]).
    A group that never closes, or a closing tag at the top level, met before the wanted item -> Unbalanced.
    Nothing found -> None."""
    i = 0
    n = len(tags)
    while i < n:
        cls, number = tags[i][0], tags[i][1]
        if cls == APP:
            i += 1
        elif cls == CTX:
            if number == context:
                return ("tag", i)
            i += 1
        elif cls == OPEN:
            depth = 1
            j = i + 1
            while j < n:
                if tags[j][0] == OPEN:
                    depth += 1
                elif tags[j][0] == CLOSE:
                    depth -= 1
                    if depth == 0:
                        break
                j += 1
            if depth != 0:
                raise Unbalanced("group opened at %d never closes" % i)
            if number == context:
                return ("group", list(range(i + 1, j)))
            i = j + 1
        else:
            raise Unbalanced("closing tag at the top level at %d" % i)
    return None


def any_prefix(tags):
    """Reference for Any.decode: the value of an ANY runs up to (not including) the first closing tag that
    closes nothing inside it, or to the end of the list; groups still open at the end -> Unbalanced.
    Returns the number of tags taken."""
    depth = 0
    k = 0
    for t in tags:
        if t[0] == OPEN:
            depth += 1
        elif t[0] == CLOSE:
            if depth == 0:
                break
            depth -= 1
        k += 1
    if depth > 0:
        raise Unbalanced("%d group(s) still open at the end" % depth)
    return k


def max_depth(tags):
    d = m = 0
    for t in tags:
        if t[0] == OPEN:
            d += 1
            m = max(m, d)
        elif t[0] == CLOSE:
            d -= 1
    return m


# --------------------------------------------------------------------------- IEEE 754 (20.2.6, 20.2.7)

def ieee_bits(x, ebits, mbits):
    """Bit pattern of x rounded to nearest-even in the binary format with ebits/mbits.  A finite x that
    rounds beyond the largest finite number is Unrepresentable.  NaN -> the quiet NaN with empty payload."""
    x = float(x)
    emax_field = (1 << ebits) - 1
    if x != x:
        return (emax_field << mbits) | (1 << (mbits - 1))
    sign = 1 if math.copysign(1.0, x) < 0 else 0
    ax = abs(x)
    top = sign << (ebits + mbits)
    if ax == float("inf"):
        return top | (emax_field << mbits)
    if ax == 0.0:
        return top
    bias = (1 << (ebits - 1)) - 1
    m, e = math.frexp(ax)               # ax = m * 2**e, 0.5 <= m < 1
    M = int(m * (1 << 53))              # exact: ax = M * 2**(e-53), 2**52 <= M < 2**53
    E = e - 1                           # ax = 1.xxx * 2**E
    emin = 1 - bias
    if E < emin:
        field = 0
        unit = emin - mbits             # weight of the last place of a subnormal
    else:
        field = E + bias
        unit = E - mbits
    shift = unit - (e - 53)             # q = M / 2**shift, rounded
    if shift <= 0:
        q = M << (-shift)
    else:
        q, rem = divmod(M, 1 << shift)
        half = 1 << (shift - 1)
        if rem > half or (rem == half and (q & 1)):
            q += 1
    # q carries the hidden bit for normal numbers; adding instead of or-ing lets a mantissa carry
    # run into the exponent field, which is exactly the IEEE successor
    if field:
        bits = ((field - 1) << mbits) + q
    else:
        bits = q
    if (bits >> mbits) >= emax_field:
        raise Unrepresentable("%r is beyond the largest finite number of the format" % (x,))
    return top | bits


def ieee_value(bits, ebits, mbits):
    """Python float of a bit pattern (exact; every binary32 number is a binary64 number)."""
    sign = -1.0 if (bits >> (ebits + mbits)) & 1 else 1.0
    field = (bits >> mbits) & ((1 << ebits) - 1)
    frac = bits & ((1 << mbits) - 1)
    bias = (1 << (ebits - 1)) - 1
    if field == (1 << ebits) - 1:
        if frac:
            return float("nan")
        return sign * float("inf")
    if field == 0:
        return sign * math.ldexp(frac, 1 - bias - mbits)
    return sign * math.ldexp((1 << mbits) | frac, field - bias - mbits)


def is_nan_bits(bits, ebits, mbits):
    return ((bits >> mbits) & ((1 << ebits) - 1)) == (1 << ebits) - 1 and (bits & ((1 << mbits) - 1)) != 0


# --------------------------------------------------------------------------- contents of the primitives

def _be(n, length):
    return bytes((n >> (8 * (length - 1 - i))) & 0xFF for i in range(length))


def content_unsigned(n):
    if not isinstance(n, int) or isinstance(n, bool) or n < 0:
        raise Unrepresentable("unsigned %r" % (n,))
    length = 1
    while n >> (8 * length):
        length += 1
    return _be(n, length)


def value_unsigned(content):
    if len(content) == 0:
        raise ValueError("empty unsigned")
    v = 0
    for c in content:
        v = v * 256 + c
    return v


def content_integer(n):
    if not isinstance(n, int) or isinstance(n, bool):
        raise Unrepresentable("integer %r" % (n,))
    length = 1
    while not (-(1 << (8 * length - 1)) <= n <= (1 << (8 * length - 1)) - 1):
        length += 1
    return _be(n % (1 << (8 * length)), length)


def value_integer(content):
    if len(content) == 0:
        raise ValueError("empty integer")
    v = value_unsigned(content)
    if content[0] & 0x80:
        v -= 1 << (8 * len(content))
    return v


def content_real(x):
    return _be(ieee_bits(x, 8, 23), 4)


def value_real(content):
    if len(content) != 4:
        raise ValueError("real needs 4 octets")
    return ieee_value(value_unsigned(content), 8, 23)


def content_double(x):
    return _be(ieee_bits(x, 11, 52), 8)


def value_double(content):
    if len(content) != 8:
        raise ValueError("double needs 8 octets")
    return ieee_value(value_unsigned(content), 11, 52)


def round_to_real(x):
    """The binary32 number nearest to x, as a Python float (Unrepresentable beyond the range)."""
    return ieee_value(ieee_bits(x, 8, 23), 8, 23)


CHARSETS = {0: "utf-8", 3: "utf-32-be", 4: "utf-16-be", 5: "latin-1"}


def content_chars(charset, text):
    if charset not in CHARSETS:
        raise Unrepresentable("character set %r" % (charset,))
    try:
        return bytes([charset]) + text.encode(CHARSETS[charset], "strict")
    except UnicodeEncodeError:
        raise Unrepresentable("text not expressible in character set %d" % charset)


def value_chars(content):
    if len(content) == 0:
        raise ValueError("no character set octet")
    return (content[0], bytes(content[1:]).decode(CHARSETS[content[0]], "strict"))


def content_bits(bits):
    bits = list(bits)
    for b in bits:
        if b not in (0, 1):
            raise Unrepresentable("bit %r" % (b,))
    unused = (8 - len(bits) % 8) % 8
    out = bytearray([unused])
    padded = bits + [0] * unused
    for i in range(0, len(padded), 8):
        octet = 0
        for b in padded[i:i + 8]:
            octet = (octet << 1) | b
        out.append(octet)
    return bytes(out)


def value_bits(content):
    if len(content) == 0:
        raise ValueError("no unused-bits octet")
    unused = content[0]
    if unused > 7 or (unused and len(content) == 1):
        raise ValueError("bad unused-bits octet")
    bits = []
    for octet in content[1:]:
        for k in range(7, -1, -1):
            bits.append((octet >> k) & 1)
    return tuple(bits[:len(bits) - unused])


def content_four(t):
    t = tuple(t)
    if len(t) != 4:
        raise Unrepresentable("four octets needed: %r" % (t,))
    for x in t:
        if not isinstance(x, int) or isinstance(x, bool) or not (0 <= x <= 255):
            raise Unrepresentable("octet %r" % (x,))
    return bytes(t)


def value_four(content):
    if len(content) != 4:
        raise ValueError("four octets needed")
    return tuple(content)


def content_objid(v):
    otype, inst = v
    for x in (otype, inst):
        if not isinstance(x, int) or isinstance(x, bool):
            raise Unrepresentable("object identifier %r" % (v,))
    if not (0 <= otype <= 1023) or not (0 <= inst <= 0x3FFFFF):
        raise Unrepresentable("object identifier %r" % (v,))
    return _be((otype << 22) | inst, 4)


def value_objid(content):
    if len(content) != 4:
        raise ValueError("four octets needed")
    w = value_unsigned(content)
    return (w >> 22, w & 0x3FFFFF)


def content_of(kind, value):
    """Contents octets of a primitive in *context* form (Boolean = one octet)."""
    if kind == NULL:
        if value is not None:
            raise Unrepresentable("null %r" % (value,))
        return b""
    if kind == BOOLEAN:
        if value is not True and value is not False:
            raise Unrepresentable("boolean %r" % (value,))
        return b"\x01" if value else b"\x00"
    if kind in (UNSIGNED, ENUM):
        return content_unsigned(value)
    if kind == INTEGER:
        return content_integer(value)
    if kind == REAL:
        return content_real(value)
    if kind == DOUBLE:
        return content_double(value)
    if kind == OCTETS:
        return bytes(value)
    if kind == CHARS:
        return content_chars(*value)
    if kind == BITS:
        return content_bits(value)
    if kind in (DATE, TIME):
        return content_four(value)
    if kind == OBJID:
        return content_objid(value)
    raise ValueError("kind %r" % (kind,))


def value_of(kind, content):
    """Inverse of content_of (context form)."""
    content = bytes(content)
    if kind == NULL:
        if content:
            raise ValueError("null with contents")
        return None
    if kind == BOOLEAN:
        if content not in (b"\x00", b"\x01"):
            raise ValueError("boolean contents %r" % (content,))
        return content == b"\x01"
    if kind in (UNSIGNED, ENUM):
        return value_unsigned(content)
    if kind == INTEGER:
        return value_integer(content)
    if kind == REAL:
        return value_real(content)
    if kind == DOUBLE:
        return value_double(content)
    if kind == OCTETS:
        return content
    if kind == CHARS:
        return value_chars(content)
    if kind == BITS:
        return value_bits(content)
    if kind in (DATE, TIME):
        return value_four(content)
    if kind == OBJID:
        return value_objid(content)
    raise ValueError("kind %r" % (kind,))


def encode_value(kind, value, context=None):
    """Complete octets (tag + contents) of a primitive value, application tagged (context None) or
    context tagged with that number."""
    content = content_of(kind, value)
    if context is None:
        if kind == BOOLEAN:
            return tag_header(APP, BOOLEAN, 1 if value else 0)
        return encode_tag(APP, kind, len(content), content)
    return encode_tag(CTX, context, len(content), content)


def decode_value(kind, octets, context=None):
    """Inverse of encode_value; the octets must be exactly one tag of the expected class and number."""
    (cls, number, lvt, data), pos, _flags = parse_tag(bytes(octets), 0)
    if pos != len(octets):
        raise ValueError("octets left over")
    if context is None:
        if cls != APP or number != kind:
            raise ValueError("application tag %d expected" % kind)
        if kind == BOOLEAN:
            if lvt not in (0, 1):
                raise ValueError("boolean value %r" % (lvt,))
            return bool(lvt)
        return value_of(kind, data)
    if cls != CTX or number != context:
        raise ValueError("context tag %d expected" % context)
    return value_of(kind, data)


def same_value(kind, a, b):
    """Equality of reference values; all NaNs are one value, +0.0 and -0.0 are different values."""
    if kind in (REAL, DOUBLE):
        if a != a or b != b:
            return a != a and b != b
        return a == b and math.copysign(1.0, a) == math.copysign(1.0, b)
    return a == b


def selftest():
    """Sanity of the reference itself against the platform's IEEE arithmetic (struct is not code under test).
    Returns a list of problems (empty when sane)."""
    import struct
    bad = []
    probes32 = [0x00000000, 0x80000000, 0x00000001, 0x007FFFFF, 0x00800000, 0x3F800000, 0x3F800001, 0x7F7FFFFF,
                0x7F800000, 0xFF800000, 0x40490FDB, 0xC2F6E979, 0x00400000, 0x33800000]
    for b in probes32:
        v = struct.unpack(">f", _be(b, 4))[0]
        if ieee_value(b, 8, 23) != v or ieee_bits(v, 8, 23) != b:
            bad.append(("binary32", hex(b)))
    probes = [0.1, 1.0 / 3, 1 + 2.0 ** -24, 1 + 2.0 ** -24 + 2.0 ** -52, 1 + 3 * 2.0 ** -24, 2.0 ** -149, 2.0 ** -150,
              2.0 ** -150 * (1 + 2.0 ** -52), 2.0 ** -126 * (1 - 2.0 ** -24), 2.0 ** -126 * (1 - 2.0 ** -25), 5e-324,
              3.4028234663852886e38, 3.4028235677973362e38, 16777217.0, 1e-40, 1.17549435e-38, 123456.789]
    for x in probes:
        for s in (x, -x):
            if _be(ieee_bits(s, 8, 23), 4) != struct.pack(">f", s):
                bad.append(("round32", repr(s)))
            if _be(ieee_bits(s, 11, 52), 8) != struct.pack(">d", s) or ieee_value(ieee_bits(s, 11, 52), 11, 52) != s:
                bad.append(("binary64", repr(s)))
    for x in (3.4028235677973366e38, 1e39, 1.7976931348623157e308):
        try:
            struct.pack(">f", x)
            bad.append(("struct accepts", repr(x)))
        except OverflowError:
            pass
        try:
            ieee_bits(x, 8, 23)
            bad.append(("reference accepts", repr(x)))
        except Unrepresentable:
            pass
    if content_integer(-129) != b"\xff\x7f" or content_integer(128) != b"\x00\x80" or content_integer(-128) != b"\x80":
        bad.append(("integer", "boundary"))
    if content_integer(2 ** 31) != b"\x00\x80\x00\x00\x00" or value_integer(b"\x00\x80\x00\x00\x00") != 2 ** 31:
        bad.append(("integer", "2**31"))
    if content_bits([1, 0, 1]) != b"\x05\xa0" or content_bits([]) != b"\x00" or value_bits(b"\x05\xa0") != (1, 0, 1):
        bad.append(("bits", "101"))
    if encode_value(DOUBLE, 1.0) != b"\x55\x08\x3f\xf0\x00\x00\x00\x00\x00\x00":
        bad.append(("double", "tag"))
    if encode_value(BOOLEAN, True) != b"\x11" or encode_value(BOOLEAN, True, 3) != b"\x39\x01":
        bad.append(("boolean", "forms"))
    if encode_value(OBJID, (8, 1234)) != b"\xc4\x02\x00\x04\xd2":
        bad.append(("objid", "device,1234"))
    if encode_tag(CTX, 254, 253, b"x" * 253)[:3] != b"\xfd\xfe\xfd" or encode_tag(CTX, 15, 254, b"x" * 254)[:5] != b"\xfd\x0f\xfe\x00\xfe":
        bad.append(("tag", "escapes"))
    if tag_header(APP, 6, 65536) != b"\x65\xff\x00\x01\x00\x00" or tag_header(OPEN, 3, 0) != b"\x3e" or tag_header(CLOSE, 20, 0) != b"\xff\x14":
        bad.append(("tag", "long/open/close"))
    return bad
