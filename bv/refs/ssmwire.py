"""Passive wire monitor: independent parser of NPCI (clause 6.2) + APCI (clause 20.1) octets.

Written from the standard; does not import bacpypes.  Used to observe what the stacks put on the
controlled LAN (segment numbers, window sizes, more-follows, lengths, invoke IDs).
"""

MAX_APDU_CODES = {0: 50, 1: 128, 2: 206, 3: 480, 4: 1024, 5: 1476}
MAX_SEGS_CODES = {0: None, 1: 2, 2: 4, 3: 8, 4: 16, 5: 32, 6: 64, 7: 65}     # 0 unspecified, 7 = more than 64

TYPES = {0: "ConfirmedRequest", 1: "UnconfirmedRequest", 2: "SimpleAck", 3: "ComplexAck", 4: "SegmentAck",
         5: "Error", 6: "Reject", 7: "Abort"}


class WireError(Exception):
    pass


def parse_npdu(data):
    """-> dict(version, control, dnet, dadr, snet, sadr, hop, netmsg, payload)"""
    if len(data) < 2:
        raise WireError("npdu too short")
    p = 0
    ver = data[p]; p += 1
    ctl = data[p]; p += 1
    out = {"version": ver, "control": ctl, "dnet": None, "dadr": None, "snet": None, "sadr": None, "hop": None,
           "netmsg": None, "expecting_reply": bool(ctl & 0x04), "priority": ctl & 0x03}
    if ctl & 0x20:
        if len(data) < p + 3:
            raise WireError("dnet truncated")
        out["dnet"] = (data[p] << 8) | data[p + 1]; p += 2
        dlen = data[p]; p += 1
        out["dadr"] = bytes(data[p:p + dlen]); p += dlen
    if ctl & 0x08:
        if len(data) < p + 3:
            raise WireError("snet truncated")
        out["snet"] = (data[p] << 8) | data[p + 1]; p += 2
        slen = data[p]; p += 1
        out["sadr"] = bytes(data[p:p + slen]); p += slen
    if ctl & 0x20:
        if len(data) < p + 1:
            raise WireError("hop truncated")
        out["hop"] = data[p]; p += 1
    if ctl & 0x80:
        if len(data) < p + 1:
            raise WireError("message type truncated")
        out["netmsg"] = data[p]; p += 1
        if out["netmsg"] >= 0x80:
            p += 2
    if p > len(data):
        raise WireError("npdu truncated")
    out["payload"] = bytes(data[p:])
    return out


def parse_apdu(apdu):
    """-> dict(type, name, seg, mor, sa, maxsegs, maxresp, invoke, seq, win, service, srv, nak, reason, hdr, payload, length)"""
    if not apdu:
        raise WireError("empty apdu")
    b0 = apdu[0]
    t = b0 >> 4
    out = {"type": t, "name": TYPES.get(t, "type%d" % t), "seg": False, "mor": False, "sa": None, "maxsegs": None,
           "maxresp": None, "invoke": None, "seq": None, "win": None, "service": None, "srv": None, "nak": None,
           "reason": None, "length": len(apdu)}
    p = 1
    try:
        if t == 0:
            out["seg"] = bool(b0 & 0x08); out["mor"] = bool(b0 & 0x04); out["sa"] = bool(b0 & 0x02)
            out["maxsegs"] = (apdu[1] >> 4) & 0x07; out["maxresp"] = apdu[1] & 0x0F
            out["invoke"] = apdu[2]; p = 3
            if out["seg"]:
                out["seq"] = apdu[3]; out["win"] = apdu[4]; p = 5
            out["service"] = apdu[p]; p += 1
        elif t == 1:
            out["service"] = apdu[1]; p = 2
        elif t == 2:
            out["invoke"] = apdu[1]; out["service"] = apdu[2]; p = 3
        elif t == 3:
            out["seg"] = bool(b0 & 0x08); out["mor"] = bool(b0 & 0x04)
            out["invoke"] = apdu[1]; p = 2
            if out["seg"]:
                out["seq"] = apdu[2]; out["win"] = apdu[3]; p = 4
            out["service"] = apdu[p]; p += 1
        elif t == 4:
            out["nak"] = bool(b0 & 0x02); out["srv"] = bool(b0 & 0x01)
            out["invoke"] = apdu[1]; out["seq"] = apdu[2]; out["win"] = apdu[3]; p = 4
        elif t == 5:
            out["invoke"] = apdu[1]; out["service"] = apdu[2]; p = 3
        elif t == 6:
            out["invoke"] = apdu[1]; out["reason"] = apdu[2]; p = 3
        elif t == 7:
            out["srv"] = bool(b0 & 0x01)
            out["invoke"] = apdu[1]; out["reason"] = apdu[2]; p = 3
        else:
            raise WireError("unknown apdu type %d" % t)
    except IndexError:
        raise WireError("apdu header truncated")
    out["hdr"] = p
    out["payload"] = bytes(apdu[p:])
    return out


def parse_frame(data):
    n = parse_npdu(data)
    a = None
    if n["netmsg"] is None and n["payload"]:
        a = parse_apdu(n["payload"])
    return n, a
