"""Schema-driven shape generator over the *live* bacpypes tables (C03).

Nothing in here decides a verdict.  The module

* discovers every constructed class reachable from ``apdu`` / ``basetypes`` (and the list/array
  classes the factories ``SequenceOf`` / ``ListOf`` / ``ArrayOf`` have built after ``bacpypes.object``
  was imported) and gives each one a stable, structural name;
* extracts the live wire tables in the layout of ``asn1_schema.json`` (``live_schema``) so that the
  check can diff them against the committed transcription;
* enumerates, per type, all *shapes* inside the bound, graded by size (smallest first), with exact
  cardinalities and random access (``TypeSpace.card`` / ``TypeSpace.shape``): every subset of optional
  elements (all 2^k for k <= 8, otherwise none / all / single-present / single-absent), every choice
  alternative, list lengths 0..L, nesting depth <= 4 (deeper levels take the one minimal shape),
  ``Any`` empty / one atomic / one constructed.  Size of a shape = sum over its nodes of: distance of the
  presence pattern from the nearer of "nothing optional present" / "everything present", +1 per item of a
  variable-length list, +1 for a non-empty Any; choice alternatives and leaves are free.  The enumeration is
  counted exactly (``Spaces.total``) and indexed (``En.g``) without being materialised;
* fills the leaves of a shape from boundary value sets *by rotation* (``fill``): no cross product of
  leaf values, the seed only offsets the rotation;
* turns the neutral value into live bacpypes objects (``build``).

Neutral values (what the reference encoder and the comparer work on; never bacpypes objects):

    ('P', class_name, python_value)              atomic element, raw python value
    ('X', app_class_name, python_value)          atomic *instance* (AnyAtomic position, content of an Any)
    ('S', type_name, ((element, value|None), ...))   sequence, None = absent optional element
    ('C', type_name, element, value)             choice
    ('L', type_name, (value, ...))               SequenceOf / ListOf / ArrayOf
    ('A', type_name, (value, ...))               Any / SequenceOfAny holding typed content (0 or 1 values)
"""
import struct
from collections import OrderedDict

import bv  # noqa: F401  (puts the tree under test on sys.path)
from bacpypes import apdu as _apdu
from bacpypes import basetypes as _basetypes
from bacpypes import constructeddata as _cd
from bacpypes import primitivedata as _pd
import bacpypes.object  # noqa: F401  (instantiates the ListOf/ArrayOf classes used by the property tables)

MAX_DEPTH = 4
SUBSET_LIMIT = 8          # optional elements: all 2^k subsets up to this k

APP_CLASSES = ["Null", "Boolean", "Unsigned", "Integer", "Real", "Double", "OctetString", "CharacterString",
               "BitString", "Enumerated", "Date", "Time", "ObjectIdentifier"]

REGISTRIES = ["confirmed_request_types", "complex_ack_types", "unconfirmed_request_types", "error_types"]

_ABSTRACT = None


def _abstract():
    global _ABSTRACT
    if _ABSTRACT is None:
        _ABSTRACT = set([_cd.Sequence, _cd.Choice, _apdu.APCISequence, _apdu.ConfirmedRequestSequence,
                         _apdu.ComplexAckSequence, _apdu.UnconfirmedRequestSequence, _apdu.ErrorSequence,
                         _cd.Array, _cd.List, _pd.Atomic])
    return _ABSTRACT


class Elem(object):
    __slots__ = ("name", "cls", "type", "context", "optional")

    def __init__(self, name, cls, tname, context, optional):
        self.name = name
        self.cls = cls
        self.type = tname
        self.context = context
        self.optional = bool(optional)


class TypeInfo(object):
    """One live class: kind + table."""

    def __init__(self, name, cls, kind):
        self.name = name
        self.cls = cls
        self.kind = kind            # sequence choice sequenceof listof arrayof any seqofany atomic anyatomic
        self.elements = []          # sequence / choice
        self.subtype = None         # list kinds: name of the item type
        self.fixed_length = None
        self.base = None            # atomic: name of the application class
        self.pdu = None             # service classes: 'confirmed' 'complexack' 'unconfirmed' 'error'
        self.custom = False         # the class overrides encode/decode (NameValue)

    def is_list(self):
        return self.kind in ("sequenceof", "listof", "arrayof")

    def is_constructed(self):
        return self.kind in ("sequence", "choice", "sequenceof", "listof", "arrayof", "any", "seqofany")


def kind_of(cls):
    if not isinstance(cls, type):
        return None
    if issubclass(cls, _cd.AnyAtomic):
        return "anyatomic"
    if issubclass(cls, _pd.Atomic):
        return "atomic"
    if cls in _cd._sequence_of_classes:
        return "sequenceof"
    if cls in _cd._list_of_classes:
        return "listof"
    if issubclass(cls, _cd.Array) and getattr(cls, "subtype", None) is not None:
        return "arrayof"
    if issubclass(cls, _cd.SequenceOfAny):
        return "seqofany"
    if issubclass(cls, _cd.Any):
        return "any"
    if issubclass(cls, _cd.Sequence):
        return "sequence"
    if issubclass(cls, _cd.Choice):
        return "choice"
    return None


class Types(object):
    """All discovered live classes, by stable name."""

    def __init__(self):
        self.by_name = OrderedDict()
        self.by_cls = {}
        self.registries = OrderedDict()     # registry -> {choice: type name}
        self._discover()

    # -- naming
    def _name_for(self, cls, kind):
        if kind in ("sequenceof", "listof"):
            sub = self._add(cls.subtype)
            return "%s(%s)" % ("SequenceOf" if kind == "sequenceof" else "ListOf", sub)
        if kind == "arrayof":
            # a named subclass of an ArrayOf class keeps its own name
            if cls not in _cd._array_of_classes:
                return cls.__name__
            sub = self._add(cls.subtype)
            nm = "ArrayOf(%s)" % sub
            if cls.fixed_length is not None:
                nm += "[%d]" % cls.fixed_length
            if cls.prototype is not None:
                nm += "+prototype"
            return nm
        return cls.__name__

    def _add(self, cls):
        if cls in self.by_cls:
            return self.by_cls[cls]
        kind = kind_of(cls)
        if kind is None:
            raise TypeError("class %r is neither atomic nor constructed" % (cls,))
        name = self._name_for(cls, kind)
        if cls in self.by_cls:              # naming recursed into ourselves
            return self.by_cls[cls]
        base = name
        n = 1
        while name in self.by_name:
            n += 1
            name = "%s~%d" % (base, n)
        ti = TypeInfo(name, cls, kind)
        self.by_name[name] = ti
        self.by_cls[cls] = name
        if kind in ("sequence", "choice"):
            table = cls.sequenceElements if kind == "sequence" else cls.choiceElements
            for el in table:
                ti.elements.append(Elem(el.name, el.klass, self._add(el.klass), el.context, el.optional))
            for c in cls.__mro__:
                if c in (_cd.Sequence, _cd.Choice, _apdu.APCISequence) or not issubclass(c, (_cd.Sequence, _cd.Choice)):
                    continue
                if "encode" in c.__dict__ or "decode" in c.__dict__:
                    ti.custom = True
            if issubclass(cls, _apdu.ConfirmedRequestSequence):
                ti.pdu = "confirmed"
            elif issubclass(cls, _apdu.ComplexAckSequence):
                ti.pdu = "complexack"
            elif issubclass(cls, _apdu.UnconfirmedRequestSequence):
                ti.pdu = "unconfirmed"
            elif issubclass(cls, _apdu.ErrorSequence):
                ti.pdu = "error"
        elif kind in ("sequenceof", "listof", "arrayof"):
            ti.subtype = self._add(cls.subtype)
            ti.fixed_length = getattr(cls, "fixed_length", None)
        elif kind == "atomic":
            for c in cls.__mro__:
                if c.__name__ in APP_CLASSES and c.__module__.endswith("primitivedata"):
                    ti.base = c.__name__
                    break
        return name

    def _discover(self):
        for mod in (_apdu, _basetypes):
            for nm, v in vars(mod).items():
                if not isinstance(v, type) or v in _abstract():
                    continue
                k = kind_of(v)
                if k is None:
                    continue
                if k in ("atomic", "anyatomic") and not (v.__module__ == mod.__name__
                                                          or v.__module__.endswith("primitivedata")
                                                          or v.__module__.endswith("constructeddata")):
                    continue
                self._add(v)
        for nm, v in vars(_pd).items():
            if isinstance(v, type) and kind_of(v) == "atomic" and v is not _pd.Atomic:
                self._add(v)
        for reg in REGISTRIES:
            table = getattr(_apdu, reg)
            self.registries[reg] = OrderedDict()
            for choice in sorted(table):
                self.registries[reg][choice] = self._add(table[choice])
        for m in (_cd._sequence_of_map, _cd._list_of_map, _cd._array_of_map):
            for c in list(m.values()):
                self._add(c)

    # -- access
    def __getitem__(self, name):
        return self.by_name[name]

    def __contains__(self, name):
        return name in self.by_name

    def constructed(self):
        """names of all types the check enumerates, sorted"""
        return sorted(n for n, t in self.by_name.items() if t.is_constructed())

    def ensure_list_of(self, kind, subname):
        """A ListOf/SequenceOf/ArrayOf class over a discovered type, built through the public factory if needed."""
        sub = self.by_name[subname].cls
        fac = {"listof": _cd.ListOf, "sequenceof": _cd.SequenceOf, "arrayof": _cd.ArrayOf}[kind]
        return self._add(fac(sub))


# ----------------------------------------------------------------------------- live schema (layout of asn1_schema.json)

def merged_enumerations(cls):
    out = {}
    for c in reversed(cls.__mro__):
        en = c.__dict__.get("enumerations")
        if en:
            for k, v in en.items():
                out[k] = v
    return out


def live_schema(types):
    sch = {"registries": {}, "types": {}, "primitives": {}}
    for reg, table in types.registries.items():
        sch["registries"][reg] = dict((str(k), v) for k, v in table.items())
    for name, ti in types.by_name.items():
        if ti.kind == "atomic":
            ent = {"base": ti.base}
            if ti.base == "Enumerated":
                en = merged_enumerations(ti.cls)
                if en:
                    ent["enumerations"] = dict(sorted(en.items(), key=lambda kv: (kv[1], kv[0])))
            elif ti.base == "BitString":
                if ti.cls.bitNames:
                    ent["bits"] = dict(sorted(ti.cls.bitNames.items(), key=lambda kv: (kv[1], kv[0])))
                if ti.cls.bitLen:
                    ent["length"] = ti.cls.bitLen
            elif ti.base == "Unsigned":
                if getattr(ti.cls, "_high_limit", None) is not None:
                    ent["max"] = ti.cls._high_limit
                if getattr(ti.cls, "_low_limit", 0):
                    ent["min"] = ti.cls._low_limit
            sch["primitives"][name] = ent
        elif ti.kind == "anyatomic":
            sch["types"][name] = {"kind": "anyatomic"}
        elif ti.kind in ("sequence", "choice"):
            ent = {"kind": ti.kind,
                   "elements": [{"name": e.name, "class": e.type, "context": e.context, "optional": e.optional}
                                for e in ti.elements]}
            if ti.pdu:
                ent["pdu"] = ti.pdu
            if ti.custom:
                ent["custom_codec"] = True
            sch["types"][name] = ent
        elif ti.is_list():
            ent = {"kind": ti.kind, "subtype": ti.subtype}
            if ti.fixed_length is not None:
                ent["fixed_length"] = ti.fixed_length
            sch["types"][name] = ent
        else:
            sch["types"][name] = {"kind": ti.kind}
    return sch


# ----------------------------------------------------------------------------- boundary value sets

def _f32(x):
    return struct.unpack(">f", struct.pack(">f", x))[0]


_UNSIGNED = [0, 1, 127, 128, 255, 256, 65535, 65536, 16777215, 16777216, 4294967295, 5, 16, 1476]
_INTEGER = [0, 1, -1, 127, 128, -128, -129, 32767, 32768, -32768, -32769, 8388607, 8388608, -8388608, -8388609,
            2147483647, -2147483648, 8]
_REAL = [0.0, 1.0, -1.0, _f32(72.3), 3.4028234663852886e+38, 1.401298464324817e-45, float("inf"), float("-inf"),
         -0.0, 0.5, _f32(-273.15), 180.0]
_DOUBLE = [0.0, 1.0, -1.0, 72.3, 1.7976931348623157e+308, 5e-324, float("inf"), float("-inf"), -0.0, 0.1]
_OCTETS = [b"", b"\x00", b"\x01\x02\x03", b"\x00\x01\x02\x03", b"\xff\xfe\xfd\xfc\xfb", bytes(range(6)),
           bytes((i * 7) & 255 for i in range(253)), bytes((i * 5 + 1) & 255 for i in range(254)), b"\x7f"]
_STRINGS = ["", "a", "abcd", "héllo", "€", "\U0001F600", "MDL", "x" * 252, "y" * 253, "OATemp"]
_BITS = [[], [1], [0], [1, 0, 1], [1] * 8, [0, 1] * 4 + [1], [0] * 7, [1] * 16, [0, 0, 0, 0], [1, 1, 1]]
_ENUM_GENERIC = [0, 1, 255, 256, 65535, 4194303, 3]
_DATES = [(255, 255, 255, 255), (0, 1, 1, 1), (124, 12, 31, 2), (99, 13, 32, 255), (254, 14, 34, 7), (92, 11, 17, 2)]
_TIMES = [(255, 255, 255, 255), (0, 0, 0, 0), (23, 59, 59, 99), (12, 30, 255, 255), (22, 45, 30, 70), (1, 2, 3, 4)]
_WEEKNDAY = [b"\xff\xff\xff", b"\x01\x01\x01", b"\x0c\x06\x07", b"\x0d\x05\xff"]


class Boundaries(object):
    """Boundary value set per atomic class.  Enumeration / object type names come from the committed
    transcription when it knows the class (names whose number is shared with another name are left out:
    they do not decode to themselves by design), from the live table otherwise."""

    def __init__(self, types, committed=None):
        self.types = types
        self.committed = committed or {}
        self._cache = {}

    def _enum_table(self, name, ti):
        ent = (self.committed.get("primitives") or {}).get(name)
        if ent is not None and ent.get("base") == "Enumerated":
            return ent.get("enumerations") or {}
        return merged_enumerations(ti.cls)

    def values(self, name):
        vs = self._cache.get(name)
        if vs is None:
            vs = self._cache[name] = self._make(name)
        return vs

    def _make(self, name):
        ti = self.types[name]
        base = ti.base
        if base == "Null":
            return [()]
        if base == "Boolean":
            return [False, True]
        if base == "Unsigned":
            hi = getattr(ti.cls, "_high_limit", None)
            lo = getattr(ti.cls, "_low_limit", 0) or 0
            vs = [v for v in _UNSIGNED if v >= lo and (hi is None or v <= hi)]
            if hi is not None and hi not in vs:
                vs.append(hi)
            return vs
        if base == "Integer":
            return list(_INTEGER)
        if base == "Real":
            return list(_REAL)
        if base == "Double":
            return list(_DOUBLE)
        if base == "OctetString":
            if name == "WeekNDay":
                return list(_WEEKNDAY)
            return list(_OCTETS)
        if base == "CharacterString":
            return list(_STRINGS)
        if base == "BitString":
            n = getattr(ti.cls, "bitLen", 0) or 0
            if n:
                pats = [[0] * n, [1] * n, [(i + 1) % 2 for i in range(n)], [1] + [0] * (n - 1), [0] * (n - 1) + [1]]
                out = []
                for p in pats:
                    if p not in out:
                        out.append(p)
                return out
            return [list(b) for b in _BITS]
        if base == "Enumerated":
            table = self._enum_table(name, ti)
            if not table:
                return list(_ENUM_GENERIC)
            by_num = {}
            for k, v in table.items():
                by_num.setdefault(v, []).append(k)
            names = [ks[0] for v, ks in sorted(by_num.items()) if len(ks) == 1]
            top = max(by_num) + 1
            extra = [x for x in (top, top + 300, 65535, 4194303) if x not in by_num and x >= top]
            return names + extra[:2]
        if base == "Date":
            return list(_DATES)
        if base == "Time":
            return list(_TIMES)
        if base == "ObjectIdentifier":
            ot = self._enum_table("ObjectType", self.types["ObjectType"])
            by_num = {}
            for k, v in ot.items():
                by_num.setdefault(v, []).append(k)

            def nm(n):
                ks = by_num.get(n)
                return ks[0] if ks and len(ks) == 1 else n
            return [(nm(0), 0), (nm(0), 5), (nm(8), 4194303), (nm(2), 1), (nm(10), 7), (700, 1), (1023, 4194303),
                    (nm(4), 4194302), (nm(27), 65536), (127, 0), (nm(8), 3)]
        raise KeyError("no boundary set for %s (base %r)" % (name, base))


# ----------------------------------------------------------------------------- graded finite enumerations

class En(object):
    """Finite set of shapes graded by size, cardinalities truncated at degree D (len(c) == D+1)."""
    __slots__ = ("c", "g")

    def __init__(self, c, g):
        self.c = c
        self.g = g


def e_leaf(x, D):
    c = [0] * (D + 1)
    c[0] = 1
    return En(c, lambda s, i: x)


def e_pay(e, k, D):
    if k == 0:
        return e
    c = ([0] * k + e.c)[:D + 1]
    g0 = e.g
    return En(c, lambda s, i: g0(s - k, i))


def e_union(es, D):
    es = list(es)
    c = [sum(e.c[s] for e in es) for s in range(D + 1)]

    def g(s, i):
        for e in es:
            n = e.c[s]
            if i < n:
                return e.g(s, i)
            i -= n
        raise IndexError("union index out of range")
    return En(c, g)


def e_prod2(a, b, D):
    """pairs (tuple from a) + (item from b,)"""
    ac, bc = a.c, b.c
    c = [0] * (D + 1)
    for j, aj in enumerate(ac):
        if not aj:
            continue
        for t in range(D + 1 - j):
            bt = bc[t]
            if bt:
                c[j + t] += aj * bt
    ag, bg = a.g, b.g

    def g(s, i):
        for j in range(s + 1):
            nb = bc[s - j]
            n = ac[j] * nb
            if i < n:
                ia, ib = divmod(i, nb)
                return ag(j, ia) + (bg(s - j, ib),)
            i -= n
        raise IndexError("product index out of range")
    return En(c, g)


def e_tuple(es, D):
    acc = e_leaf((), D)
    for e in es:
        acc = e_prod2(acc, e, D)
    return acc


def e_map(e, f):
    g0 = e.g
    return En(e.c, lambda s, i: f(g0(s, i)))


# ----------------------------------------------------------------------------- shape spaces

class Bounds(object):
    def __init__(self, max_list=2, max_depth=MAX_DEPTH, subset_limit=SUBSET_LIMIT):
        self.max_list = max_list
        self.max_depth = max_depth
        self.subset_limit = subset_limit

    def key(self):
        return (self.max_list, self.max_depth, self.subset_limit)


def optional_patterns(k, limit):
    """presence patterns over k optional elements with their size: all 2^k subsets (k <= limit), otherwise
    none / all / single-present / single-absent.  The size of a pattern is its distance from the nearer extreme,
    min(#present, 1 + #absent): nothing present 0, one present 1, everything present 1, all but one 2 ...; so both
    ends of the lattice come first."""
    if k <= limit:
        pats = []
        for m in range(1 << k):
            pats.append(tuple(bool(m >> (k - 1 - j) & 1) for j in range(k)))
    else:
        pats = [tuple([False] * k), tuple([True] * k)]
        for i in range(k):
            pats.append(tuple(j == i for j in range(k)))
        for i in range(k):
            pats.append(tuple(j != i for j in range(k)))
    seen = []
    for p in pats:
        if p not in seen:
            seen.append(p)

    def cost(p):
        on = sum(1 for x in p if x)
        return min(on, 1 + (len(p) - on))
    seen.sort(key=lambda p: (cost(p), sum(1 for x in p if x), tuple(not x for x in p)))
    return [(p, cost(p)) for p in seen]


# positions whose table entry understates what the hand-written codec of the class accepts:
# NameValue.value is declared AnyAtomic, NameValue.encode/decode also carry a DateTime there
EXTRA_ALTERNATIVES = {("NameValue", "value"): ["DateTime"]}


class Spaces(object):
    """Shape spaces of all types under one bound; cardinalities are computed up to degree D."""

    def __init__(self, types, bounds, D=24):
        self.types = types
        self.b = bounds
        self.D = D
        self._en = {}
        self._total = {}
        self._minimal = {}

    # -- the one minimal shape (used below the depth bound)
    def minimal(self, name, _stack=()):
        if name in self._minimal:
            return self._minimal[name]
        if name in _stack:
            raise ValueError("recursive type %s has no minimal shape" % name)
        ti = self.types[name]
        st = _stack + (name,)
        if ti.kind == "atomic":
            sh = ("p", name)
        elif ti.kind == "anyatomic":
            sh = ("x",)
        elif ti.kind == "sequence":
            sh = ("s", name, tuple((e.name, None if e.optional else self.minimal(e.type, st)) for e in ti.elements))
        elif ti.kind == "choice":
            if not ti.elements:
                raise ValueError("choice %s has no alternative" % name)
            e = ti.elements[0]
            sh = ("c", name, e.name, self.minimal(e.type, st))
        elif ti.is_list():
            n = ti.fixed_length or 0
            sh = ("l", name, tuple(self.minimal(ti.subtype, st) for _ in range(n)))
        else:
            sh = ("a", name, "empty")
        self._minimal[name] = sh
        return sh

    # -- exact number of shapes (no truncation)
    def total(self, name, depth=1):
        key = (name, depth)
        if key in self._total:
            return self._total[key]
        ti = self.types[name]
        if depth > self.b.max_depth or ti.kind in ("atomic", "anyatomic"):
            n = 1
        elif ti.kind == "sequence":
            opt = [e for e in ti.elements if e.optional]
            req = 1
            for e in ti.elements:
                if not e.optional:
                    req *= self._el_total(name, e, depth)
            n = 0
            for p, _cost in optional_patterns(len(opt), self.b.subset_limit):
                m = req
                for e, on in zip(opt, p):
                    if on:
                        m *= self._el_total(name, e, depth)
                n += m
        elif ti.kind == "choice":
            n = sum(self.total(e.type, depth + 1) for e in ti.elements)
        elif ti.is_list():
            t = self.total(ti.subtype, depth + 1)
            if ti.fixed_length is not None:
                n = t ** ti.fixed_length
            else:
                n = sum(t ** k for k in range(self.b.max_list + 1))
        else:
            n = 3
        self._total[key] = n
        return n

    def _el_total(self, owner, e, depth):
        n = self.total(e.type, depth + 1)
        for x in EXTRA_ALTERNATIVES.get((owner, e.name), ()):
            if x in self.types:
                n += self.total(x, depth + 1)
        return n

    def _el_en(self, owner, e, depth):
        sub = self.en(e.type, depth + 1)
        extra = [self.en(x, depth + 1) for x in EXTRA_ALTERNATIVES.get((owner, e.name), ()) if x in self.types]
        if extra:
            sub = e_union([sub] + extra, self.D)
        return sub

    # -- graded enumeration
    def en(self, name, depth=1):
        key = (name, depth)
        e = self._en.get(key)
        if e is None:
            e = self._en[key] = self._make(name, depth)
        return e

    def _make(self, name, depth):
        D = self.D
        ti = self.types[name]
        if ti.kind == "atomic":
            return e_leaf(("p", name), D)
        if ti.kind == "anyatomic":
            return e_leaf(("x",), D)
        if depth > self.b.max_depth:
            return e_leaf(self.minimal(name), D)
        if ti.kind == "sequence":
            names = tuple(e.name for e in ti.elements)
            opt = [e for e in ti.elements if e.optional]
            alts = []
            for p, cost in optional_patterns(len(opt), self.b.subset_limit):
                on = dict(zip([e.name for e in opt], p))
                parts = []
                for e in ti.elements:
                    if e.optional and not on[e.name]:
                        parts.append(e_leaf(None, D))
                    else:
                        parts.append(self._el_en(name, e, depth))
                alts.append(e_pay(e_tuple(parts, D), cost, D))
            return e_map(e_union(alts, D), lambda tup, nm=name, ns=names: ("s", nm, tuple(zip(ns, tup))))
        if ti.kind == "choice":
            alts = []
            for e in ti.elements:
                alts.append(e_map(self.en(e.type, depth + 1), lambda sh, nm=name, en=e.name: ("c", nm, en, sh)))
            return e_union(alts, D)
        if ti.is_list():
            sub = self.en(ti.subtype, depth + 1)
            if ti.fixed_length is not None:
                return e_map(e_tuple([sub] * ti.fixed_length, D), lambda tup, nm=name: ("l", nm, tup))
            alts = []
            for n in range(self.b.max_list + 1):
                alts.append(e_pay(e_tuple([sub] * n, D), n, D))
            return e_map(e_union(alts, D), lambda tup, nm=name: ("l", nm, tup))
        # Any / SequenceOfAny
        return e_union([e_leaf(("a", name, "empty"), D),
                        e_pay(e_leaf(("a", name, "atomic"), D), 1, D),
                        e_pay(e_leaf(("a", name, "constructed"), D), 1, D)], D)


class SpaceManager(object):
    """Spaces per truncation degree, shared by all top-level types."""

    def __init__(self, types, bounds):
        self.types = types
        self.bounds = bounds
        self._by_d = {}
        self._ts = {}

    def spaces(self, D):
        sp = self._by_d.get(D)
        if sp is None:
            sp = self._by_d[D] = Spaces(self.types, self.bounds, D)
        return sp

    def type_space(self, name, budget):
        key = (name, budget)
        ts = self._ts.get(key)
        if ts is None:
            ts = self._ts[key] = TypeSpace(self, name, budget)
        return ts


class TypeSpace(object):
    """Shapes of one top-level type, smallest first.  `plan(budget)` lists (size, index) pairs: complete size
    levels while they fit, then an evenly spaced selection of the first level that does not fit."""

    def __init__(self, manager, name, budget):
        self.name = name
        D = 16
        while True:
            sp = manager.spaces(D)
            total = sp.total(name)
            en = sp.en(name)
            seen = sum(en.c)
            if seen >= min(total, budget) or D >= 1024:
                break
            D *= 2
        self.spaces = sp
        self.total = total
        self.en_ = en
        self.cards = en.c

    def card(self, s):
        return self.cards[s] if s < len(self.cards) else 0

    def shape(self, s, i):
        return self.en_.g(s, i)

    def levels(self, budget):
        """-> ([(size, taken, card)], complete_sizes, partial (size, taken, card) or None): complete size levels while
        they fit into the budget, then `taken` evenly spaced indices of the first level that does not fit"""
        out = []
        complete = -1
        left = budget
        done = 0
        for s, n in enumerate(self.cards):
            if done >= self.total:
                break
            if n == 0:
                complete = s
                continue
            if n <= left:
                out.append((s, n, n))
                left -= n
                done += n
                complete = s
                continue
            if left > 0:
                out.append((s, left, n))
                return out, complete, (s, left, n)
            return out, complete, (s, 0, n)
        return out, complete, None

    @staticmethod
    def nth(levels, o):
        """the o-th planned shape -> (size, index within the size level); evenly spaced with both ends included
        where a level is only partly taken (deterministic, independent of the seed)"""
        for s, taken, card in levels:
            if o < taken:
                if taken == card:
                    return s, o
                if taken == 1:
                    return s, 0
                return s, (o * (card - 1)) // (taken - 1)
            o -= taken
        raise IndexError("shape ordinal out of range")

    def plan(self, budget):
        """-> (list of (size, index), complete_sizes, partial)"""
        levels, complete, partial = self.levels(budget)
        n = sum(t for _, t, _ in levels)
        return [self.nth(levels, o) for o in range(n)], complete, partial


# ----------------------------------------------------------------------------- filling leaves by rotation

ANY_CONSTRUCTED = ["DateTime", "DeviceObjectPropertyReference", "TimeStamp", "SequenceOf(Unsigned)", "Recipient",
                   "ArrayOf(CharacterString)", "DateRange", "SequenceOf(TimeStamp)", "PropertyReference"]
SEQOFANY_ATOMIC = ["ListOf(Unsigned)", "ListOf(LifeSafetyState)", "ListOf(AccessEvent)", "ListOf(VTClass)"]
SEQOFANY_CONSTRUCTED = ["ListOf(ReadAccessSpecification)", "ListOf(LogRecord)", "ListOf(Recipient)",
                        "ListOf(DeviceObjectPropertyReference)"]


class Filler(object):
    def __init__(self, types, bounds, boundaries, seed=0):
        self.types = types
        self.bounds = bounds
        self.bd = boundaries
        self.seed = seed
        self._small = {}
        self._spaces = Spaces(types, Bounds(min(bounds.max_list, 2), 2, bounds.subset_limit), 4)
        self.any_palette = [n for n in ANY_CONSTRUCTED if n in types]
        self.soa_atomic = [n for n in SEQOFANY_ATOMIC if n in types] or [types.ensure_list_of("listof", "Unsigned")]
        self.soa_constructed = ([n for n in SEQOFANY_CONSTRUCTED if n in types]
                                or [types.ensure_list_of("listof", "DateTime")])

    def small_shapes(self, name):
        """the shapes of sizes 0..2 of a palette type (nesting bound 2), at most 12"""
        out = self._small.get(name)
        if out is None:
            en = self._spaces.en(name)
            out = []
            for s in range(min(3, len(en.c))):
                for i in range(min(en.c[s], 6)):
                    out.append(en.g(s, i))
            self._small[name] = out[:12]
            out = self._small[name]
        return out

    def fill(self, shape, rot):
        """shape -> neutral value; `rot` is the rotation base of this case"""
        ctr = [rot + self.seed * 7919]
        return self._fill(shape, ctr)

    def _pick(self, name, ctr):
        vs = self.bd.values(name)
        v = vs[ctr[0] % len(vs)]
        ctr[0] += 1
        if isinstance(v, list):
            v = list(v)
        return v

    def _fill(self, sh, ctr):
        if sh is None:
            return None
        k = sh[0]
        if k == "p":
            return ("P", sh[1], self._pick(sh[1], ctr))
        if k == "x":
            app = APP_CLASSES[ctr[0] % len(APP_CLASSES)]
            ctr[0] += 1
            return ("X", app, self._pick(app, ctr))
        if k == "s":
            return ("S", sh[1], tuple((n, self._fill(v, ctr)) for n, v in sh[2]))
        if k == "c":
            return ("C", sh[1], sh[2], self._fill(sh[3], ctr))
        if k == "l":
            return ("L", sh[1], tuple(self._fill(v, ctr) for v in sh[2]))
        if k == "a":
            name, mode = sh[1], sh[2]
            kind = self.types[name].kind
            r = ctr[0]
            ctr[0] += 1
            if mode == "empty":
                return ("A", name, ())
            if kind == "seqofany":
                pal = self.soa_atomic if mode == "atomic" else self.soa_constructed
                lname = pal[r % len(pal)]
                sub = self.types[lname].subtype
                n = 1 + (r // len(pal)) % 2
                items = []
                for _ in range(n):
                    if mode == "atomic":
                        items.append(("P", sub, self._pick(sub, ctr)))
                    else:
                        shapes = self.small_shapes(sub)
                        items.append(self._fill(shapes[ctr[0] % len(shapes)], ctr))
                return ("A", name, (("L", lname, tuple(items)),))
            if mode == "atomic":
                app = APP_CLASSES[r % len(APP_CLASSES)]
                return ("A", name, (("X", app, self._pick(app, ctr)),))
            tname = self.any_palette[r % len(self.any_palette)]
            shapes = self.small_shapes(tname)
            return ("A", name, (self._fill(shapes[(r // len(self.any_palette)) % len(shapes)], ctr),))
        raise ValueError("unknown shape %r" % (sh,))


# ----------------------------------------------------------------------------- neutral value -> live objects

def app_class(name):
    return getattr(_pd, name)


class Builder(object):
    """Turns neutral values into what a user of bacpypes would hand to the constructors: raw python values for
    atomic elements, python lists for SequenceOf/ListOf elements of a Sequence, instances for everything else."""

    def __init__(self, types):
        self.types = types

    def instance(self, v, list_alt_as="list"):
        """a self-standing object for the value (Atomic instance, Sequence/Choice instance, list helper, Any)"""
        k = v[0]
        if k == "X":
            return (self.types[v[1]].cls if v[1] in self.types else app_class(v[1]))(v[2])
        if k == "P":
            return self.types[v[1]].cls(v[2])
        if k == "S":
            ti = self.types[v[1]]
            kw = {}
            for (name, val), el in zip(v[2], ti.elements):
                if val is None:
                    continue
                kw[name] = self.element_value(el, val, "sequence", list_alt_as)
            return ti.cls(**kw)
        if k == "C":
            ti = self.types[v[1]]
            el = [e for e in ti.elements if e.name == v[2]][0]
            return ti.cls(**{v[2]: self.element_value(el, v[3], "choice", list_alt_as)})
        if k == "L":
            ti = self.types[v[1]]
            sub = self.types[ti.subtype]
            return ti.cls([self.item_value(sub, x, list_alt_as) for x in v[2]])
        if k == "A":
            ti = self.types[v[1]]
            return ti.cls(*[self.instance(x, list_alt_as) for x in v[2]])
        raise ValueError("unknown value %r" % (v,))

    def item_value(self, sub, x, list_alt_as):
        if sub.kind == "atomic":
            return x[2]
        return self.instance(x, list_alt_as)

    def element_value(self, el, val, owner, list_alt_as):
        et = self.types[el.type]
        if et.kind == "atomic":
            return val[2]
        if et.kind == "anyatomic":
            return self.instance(val, list_alt_as)
        if et.kind in ("sequenceof", "listof"):
            sub = self.types[et.subtype]
            items = [self.item_value(sub, x, list_alt_as) for x in val[2]]
            if owner == "sequence" or list_alt_as == "list":
                return items
            return et.cls(items)
        return self.instance(val, list_alt_as)


# ----------------------------------------------------------------------------- rendering

def render(v, limit=600):
    s = _render(v)
    return s if len(s) <= limit else s[:limit] + "..."


def _rv(x):
    if isinstance(x, (bytes, bytearray)):
        h = bytes(x).hex()
        return "x'%s'" % (h if len(h) <= 24 else h[:20] + "..(%d)" % len(x))
    if isinstance(x, str) and len(x) > 16:
        return repr(x[:12]) + "..(%d)" % len(x)
    return repr(x)


def _render(v):
    if v is None:
        return "-"
    k = v[0]
    if k == "P":
        return _rv(v[2])
    if k == "X":
        return "%s(%s)" % (v[1], _rv(v[2]))
    if k == "S":
        return "%s{%s}" % (v[1], ", ".join("%s=%s" % (n, _render(x)) for n, x in v[2] if x is not None))
    if k == "C":
        return "%s<%s=%s>" % (v[1], v[2], _render(v[3]))
    if k == "L":
        return "[%s]" % ", ".join(_render(x) for x in v[2])
    if k == "A":
        return "Any(%s)" % ", ".join(_render(x) for x in v[2])
    return repr(v)


def shape_label(sh):
    """compact structural description without leaf values"""
    if sh is None:
        return "-"
    k = sh[0]
    if k in ("p", "P"):
        return "."
    if k in ("x", "X"):
        return "x"
    if k in ("s", "S"):
        return "{%s}" % ",".join("%s%s" % (n, "" if shape_label(x) == "." else ":" + shape_label(x))
                                 for n, x in sh[2] if x is not None)
    if k in ("c", "C"):
        return "<%s%s>" % (sh[2], "" if shape_label(sh[3]) == "." else ":" + shape_label(sh[3]))
    if k in ("l", "L"):
        return "[%s]" % ",".join(shape_label(x) for x in sh[2])
    if k == "a":
        return "any-" + sh[2]
    if k == "A":
        return "any(%s)" % ",".join(shape_label(x) for x in sh[2])
    return "?"
