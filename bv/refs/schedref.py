"""Reference model for C20: BACnet date patterns and a direct schedule interpreter.

Written from the text of ANSI/ASHRAE 135 only, on the stdlib `datetime` and
`calendar` modules; it neither imports nor mirrors bacpypes.

  * clause 20.2.12 (Date):  four octets (year-1900, month, day-of-month, day-of-week);
      year   X'FF' = any year
      month  1..12, 13 = odd months, 14 = even months, X'FF' = any month
      day    1..31, 32 = last day of the month, 33 = odd days, 34 = even days, X'FF' = any day
      dow    1 = Monday .. 7 = Sunday, X'FF' = any day of the week
  * clause 21 (BACnetDateRange, as used by Calendar.Date_List 12.9.7 and
      Schedule.Effective_Period 12.24.6): startDate..endDate, both ends included; an end
      that is unspecified (all four octets X'FF') leaves the range unbounded on that side.
      An end is otherwise a specific date (the standard allows nothing in between; the
      reference raises Undecided when asked).
  * clause 21 (BACnetWeekNDay): three octets
      month          1..12, 13 = odd, 14 = even, X'FF' = any
      week of month  1 = days 1-7, 2 = 8-14, 3 = 15-21, 4 = 22-28, 5 = 29-31,
                     6 = last 7 days of the month,
                     7 / 8 / 9 = the 7 days before the last 7 / 14 / 21 days of the month,
                     X'FF' = any week
      day of week    1 = Monday .. 7 = Sunday, X'FF' = any
  * clause 12.24.4 (Schedule.Present_Value):
      1. the exception of highest priority (lowest number, 12.24.8) that is in effect on the
         current day and whose current value is not NULL gives the value;
      2. else the current value of the Weekly_Schedule element of the current weekday, if not NULL;
      3. else Schedule_Default.
      The current value of a list of BACnetTimeValue is the value of the latest element whose
      time is on or before the current time, NULL if there is none.
      Outside Effective_Period the object is not active: the standard prescribes no value.

Plain data throughout, no classes of the code under test:

  date pattern   (y, m, d, w)      the four octets above (y = year - 1900)
  time           (h, m, s, hs)
  calendar entry ("date", pattern) | ("range", (pattern, pattern)) | ("wnd", (m, wk, dow))
  period         a calendar entry | ("cal", [calendar entry, ...])   (contents of the referenced Calendar)
  exception      {"period": period, "tv": [(time, value), ...], "prio": 1..16}
  schedule       {"period": (pattern, pattern), "weekly": None | [7 x [(time, value), ...]] (Monday first),
                  "exceptions": [exception, ...], "default": value}
  value          None stands for NULL, anything else is compared with == (the harness uses integers: either the value
                 itself or the number of a value in the palette of the datatype under test, 0 = the type's zero / empty value)
"""
import calendar
import datetime

ANY = 255
OPEN = (ANY, ANY, ANY, ANY)


class Undecided(Exception):
    """The standard does not decide this input; a harness must not enumerate it."""


def month_length(year, month):
    return calendar.monthrange(year, month)[1]


# ------------------------------------------------------------------ patterns

def _month_ok(m, d):
    if m == ANY:
        return True
    if m == 13:
        return d.month % 2 == 1
    if m == 14:
        return d.month % 2 == 0
    if 1 <= m <= 12:
        return d.month == m
    raise Undecided("month octet %r" % (m,))


def _dow_ok(w, d):
    if w == ANY:
        return True
    if 1 <= w <= 7:
        return d.isoweekday() == w
    raise Undecided("day-of-week octet %r" % (w,))


def date_matches(pattern, d):
    """Does calendar date d (datetime.date) satisfy the Date pattern?"""
    y, m, dd, w = pattern
    if y != ANY and 1900 + y != d.year:
        return False
    if not _month_ok(m, d):
        return False
    if dd == ANY:
        pass
    elif dd == 32:
        if d.day != month_length(d.year, d.month):
            return False
    elif dd == 33:
        if d.day % 2 != 1:
            return False
    elif dd == 34:
        if d.day % 2 != 0:
            return False
    elif 1 <= dd <= 31:
        if d.day != dd:
            return False
    else:
        raise Undecided("day octet %r" % (dd,))
    return _dow_ok(w, d)


def is_specific(pattern):
    y, m, dd, w = pattern
    return y != ANY and 1 <= m <= 12 and 1 <= dd <= 31


def _as_date(pattern):
    if not is_specific(pattern):
        raise Undecided("range end %r is neither a specific date nor fully unspecified" % (pattern,))
    y, m, dd, w = pattern
    return datetime.date(1900 + y, m, dd)


def range_matches(rng, d):
    """startDate <= d <= endDate; an all-X'FF' end is unbounded."""
    start, end = rng
    if tuple(start) != OPEN and d < _as_date(start):
        return False
    if tuple(end) != OPEN and d > _as_date(end):
        return False
    return True


def weeknday_matches(pattern, d):
    m, wk, w = pattern
    if not _month_ok(m, d):
        return False
    if wk != ANY:
        last = month_length(d.year, d.month)
        if 1 <= wk <= 5:
            lo, hi = 7 * wk - 6, 7 * wk            # 29..35 for wk 5: only 29-31 exist
        elif 6 <= wk <= 9:
            hi = last - 7 * (wk - 6)               # 6: ends on the last day; 7/8/9: 7/14/21 days earlier
            lo = hi - 6
        else:
            raise Undecided("week-of-month octet %r" % (wk,))
        if not (lo <= d.day <= hi):
            return False
    return _dow_ok(w, d)


def entry_matches(entry, d):
    kind, what = entry
    if kind == "date":
        return date_matches(what, d)
    if kind == "range":
        return range_matches(what, d)
    if kind == "wnd":
        return weeknday_matches(what, d)
    raise ValueError(kind)


def period_matches(period, d):
    kind, what = period
    if kind == "cal":
        return any(entry_matches(e, d) for e in what)
    return entry_matches(period, d)


# ------------------------------------------------------------------ interpreter

def list_value(tvs, t):
    """Value of the latest element on or before time t; None (NULL) if there is none."""
    best = None
    for (tt, v) in tvs:
        tt = tuple(tt)
        if tt <= tuple(t):
            if best is not None and best[0] == tt:
                raise Undecided("two entries at the same time %r" % (tt,))
            if best is None or tt > best[0]:
                best = (tt, v)
    return None if best is None else best[1]


def active(sched, d):
    return range_matches(sched["period"], d)


def present_value(sched, d, t):
    """(active, value).  value is meaningless when not active."""
    if not active(sched, d):
        return (False, None)
    inforce = [e for e in sched.get("exceptions") or [] if period_matches(e["period"], d)]
    prios = [e["prio"] for e in inforce]
    if len(set(prios)) != len(prios):
        raise Undecided("equal priorities among exceptions in effect on %s" % (d,))
    for e in sorted(inforce, key=lambda e: e["prio"]):
        v = list_value(e["tv"], t)
        if v is not None:
            return (True, v)
    weekly = sched.get("weekly")
    if weekly:
        v = list_value(weekly[d.weekday()], t)
        if v is not None:
            return (True, v)
    return (True, sched["default"])


def present_source(sched, d, t):
    """Where the prescribed value comes from: ("exception", rank among those in effect (1 = highest priority), entry time),
    ("weekly", entry time) or ("default",); None when the schedule is not active."""
    if not active(sched, d):
        return None
    inforce = sorted((e for e in sched.get("exceptions") or [] if period_matches(e["period"], d)), key=lambda e: e["prio"])
    for rank, e in enumerate(inforce):
        if list_value(e["tv"], t) is not None:
            return ("exception", rank + 1, max(tuple(tt) for (tt, v) in e["tv"] if tuple(tt) <= tuple(t)))
    weekly = sched.get("weekly")
    if weekly and list_value(weekly[d.weekday()], t) is not None:
        return ("weekly", max(tuple(tt) for (tt, v) in weekly[d.weekday()] if tuple(tt) <= tuple(t)))
    return ("default",)


# Equal priorities.  Clause 12.24 (up to the revisions that added "the lowest array index prevails") does not say which of
# two exceptions of the same EventPriority that are in effect on one day prevails.  The reference therefore does not pick
# one: it resolves the tie in EVERY possible order of precedence and gives the SET of values.
#
#   reading "per exception" (clause 12.24.4 applied to each strict order): the tied exceptions are given distinct, adjacent
#       priorities in the order of the permutation and present_value() above decides; an exception whose current value is
#       NULL (no element on or before the current time, an empty list, or a NULL element) lets the next one speak.
#   reading "per level" (a priority level is one slot, as in a command priority array): of the tied exceptions that HAVE an
#       element on or before the current time, the one that comes first in the permutation speaks for the level; if that
#       element is NULL the level is relinquished and the next lower priority level / the weekly list / the default applies.
#       An exception without any element on or before the current time has written nothing and hides nobody.
#
# Both sets contain only values of exceptions that are in effect with an element in effect, or what lies below the level.

import itertools as _it


def tie_resolutions(sched, d):
    """Every strict order of precedence of the exceptions in effect on date d.
    Yields (resolved schedule, order) where `order` lists the exceptions in effect by falling precedence and the resolved
    schedule is the input with priorities replaced (old priority * n + rank inside the group of equals), so that no two
    exceptions in effect on d are equal and the order between different old priorities is kept."""
    excs = list(sched.get("exceptions") or [])
    inforce = [k for k, e in enumerate(excs) if period_matches(e["period"], d)]
    groups = {}
    for k in inforce:
        groups.setdefault(excs[k]["prio"], []).append(k)
    prios = sorted(groups)
    n = len(excs) + 1
    for choice in _it.product(*[_it.permutations(groups[p]) for p in prios]):
        new = [dict(e, prio=e["prio"] * n + n - 1) for e in excs]
        order = []
        for perm in choice:
            for rank, k in enumerate(perm):
                new[k]["prio"] = excs[k]["prio"] * n + rank
                order.append(k)
        res = dict(sched)
        res["exceptions"] = tuple(new)
        yield res, tuple(order)


def _has_element_in_effect(tvs, t):
    return any(tuple(tt) <= tuple(t) for (tt, v) in tvs)


def admissible_values(sched, d, t):
    """(active, per-exception set, per-level set): the values the two readings above prescribe over all orders of precedence
    among exceptions of equal priority in effect on d.  Without such a tie the first set is {present_value()[1]}."""
    if not active(sched, d):
        return (False, set(), set())
    excs = list(sched.get("exceptions") or [])
    per_exception, per_level = set(), set()
    for res, order in tie_resolutions(sched, d):
        per_exception.add(present_value(res, d, t)[1])
        # per level: walk the levels in order of priority, inside a level in the order of this permutation
        value = None
        closed = set()                                  # levels already spoken for
        for k in order:
            e = excs[k]
            if e["prio"] in closed:
                continue
            if value is None and _has_element_in_effect(e["tv"], t):
                closed.add(e["prio"])
                value = list_value(e["tv"], t)          # None: the level is relinquished
        if value is None:
            weekly = sched.get("weekly")
            if weekly:
                value = list_value(weekly[d.weekday()], t)
        if value is None:
            value = sched["default"]
        per_level.add(value)
    return (True, per_exception, per_level)


def all_times(sched):
    """Every time of day at which the value can change: 00:00 and every entry time."""
    ts = {(0, 0, 0, 0)}
    for e in sched.get("exceptions") or []:
        for (tt, v) in e["tv"]:
            ts.add(tuple(tt))
    for day in sched.get("weekly") or []:
        for (tt, v) in day:
            ts.add(tuple(tt))
    return sorted(ts)


def instants_between(sched, start, stop):
    """All (date, time) instants x with start <= x < stop at which the state (active, value) may differ
    from the instant before: start itself, every entry time and every midnight in between."""
    (d0, t0), (d1, t1) = start, stop
    out = [(d0, tuple(t0))]
    times = all_times(sched)
    d = d0
    while d <= d1:
        for tt in times:
            x = (d, tt)
            if (d0, tuple(t0)) < x < (d1, tuple(t1)):
                out.append(x)
        d += datetime.timedelta(days=1)
    return out


def first_change(sched, start, horizon_days=3):
    """First instant after `start` at which (active, value) differs from the state at `start`,
    or None if there is none within horizon_days."""
    d0, t0 = start
    s0 = present_value(sched, d0, t0)
    stop = (d0 + datetime.timedelta(days=horizon_days), (0, 0, 0, 0))
    for x in instants_between(sched, start, stop)[1:]:
        if present_value(sched, x[0], x[1]) != s0:
            return x
    return None


# ------------------------------------------------------------------ local civil time (daylight saving)
#
# A device's local clock under a POSIX TZ rule "std offset dst [offset],Mm.w.d[/time],Mm.w.d[/time]"
# (IEEE 1003.1, 8.3), written from the text of that clause on integer arithmetic and calendar.timegm;
# it does not use the platform's localtime/mktime (the harness cross-checks the two).
#
#   * offset is what must be ADDED to local time to get UTC (positive west of Greenwich); dst defaults
#     to one hour ahead of std;
#   * Mm.w.d = day d (0 = Sunday) of week w (1..5, 5 = last) of month m; time (default 02:00:00) is
#     local time in effect BEFORE the change (std for the start rule, dst for the end rule).
#
# What the Schedule property can demand around a clock change (rule applied by the C20 check):
#   * the value prescribed at an instant is the clause-12.24.4 value for the civil date and time the
#     local clock shows at that instant;
#   * civil times inside a skipped interval do not exist and are never judged; an entry whose time
#     lies in the skipped interval is "on or before the current time" from the instant of the jump on
#     (the clock then shows the end of the skipped interval), so it is due at the jump;
#   * in a repeated interval the first pass is judged by its civil time; in the second pass two
#     readings are admitted and reported separately: "civil" (the value for the civil time shown, i.e.
#     entries inside the interval are undone and executed again) and "monotonic" (an entry executed
#     once that day stays executed: the value for the latest civil time the clock has shown so far on
#     that date).  They differ only between the start of the second pass and the last entry inside
#     the interval; BACnet does not choose between them.

import re as _re


class TzRule(object):
    _NAME = r"(?:[A-Za-z]{3,}|<[A-Za-z0-9+\-]+>)"
    _OFF = r"[+\-]?\d{1,3}(?::\d{1,2}(?::\d{1,2})?)?"
    _RX = _re.compile(r"^(%s)(%s)(?:(%s)(%s)?(?:,(M\d+\.\d\.\d)(?:/(%s))?,(M\d+\.\d\.\d)(?:/(%s))?)?)?$"
                      % (_NAME, _OFF, _NAME, _OFF, _OFF, _OFF))

    def __init__(self, spec):
        m = self._RX.match(spec)
        if not m:
            raise ValueError("TZ rule not understood: %r" % (spec,))
        self.spec = spec
        self._memo = {}
        std, stdoff, dst, dstoff, srule, stime, erule, etime = m.groups()
        self.std_utcoff = -self._secs(stdoff)              # seconds to add to UTC to get local standard time
        self.has_dst = dst is not None
        if self.has_dst:
            if srule is None:
                raise ValueError("TZ rule without explicit change dates: %r" % (spec,))
            self.dst_utcoff = -self._secs(dstoff) if dstoff else self.std_utcoff + 3600
            self.start = (self._mwd(srule), self._secs(stime) if stime else 7200)
            self.end = (self._mwd(erule), self._secs(etime) if etime else 7200)
        else:
            self.dst_utcoff = self.std_utcoff

    @staticmethod
    def _secs(text):
        sign = -1 if text.startswith("-") else 1
        parts = [int(p) for p in text.lstrip("+-").split(":")]
        parts += [0] * (3 - len(parts))
        return sign * (parts[0] * 3600 + parts[1] * 60 + parts[2])

    @staticmethod
    def _mwd(text):
        m, w, d = (int(p) for p in text[1:].split("."))
        if not (1 <= m <= 12 and 1 <= w <= 5 and 0 <= d <= 6):
            raise ValueError("bad M rule %r" % (text,))
        return (m, w, d)

    @staticmethod
    def _rule_date(year, mwd):
        m, w, d = mwd
        want = (d - 1) % 7                                  # datetime.weekday(): Monday = 0; rule: Sunday = 0
        first = datetime.date(year, m, 1)
        day = 1 + (want - first.weekday()) % 7 + 7 * (w - 1)
        while day > month_length(year, m):
            day -= 7
        return datetime.date(year, m, day)

    def jumps(self, year):
        """[(instant, utc offset before, utc offset after)] of civil year `year`, in order of time."""
        if not self.has_dst:
            return []
        if year in self._memo:
            return self._memo[year]
        out = []
        for (mwd, secs), before, after in ((self.start, self.std_utcoff, self.dst_utcoff),
                                           (self.end, self.dst_utcoff, self.std_utcoff)):
            d = self._rule_date(year, mwd)
            out.append((float(calendar.timegm((d.year, d.month, d.day, 0, 0, 0)) + secs - before), before, after))
        self._memo[year] = sorted(out)
        return self._memo[year]

    def _all_jumps(self, x):
        y = (datetime.datetime(1970, 1, 1) + datetime.timedelta(seconds=int(x // 1) + self.std_utcoff)).year
        out = []
        for yy in (y - 1, y, y + 1):
            if 1 <= yy <= 9999:
                out.extend(self.jumps(yy))
        return sorted(out)

    def utcoff(self, x):
        """Seconds to add to the instant x (seconds since the epoch, UTC) to get the local clock reading."""
        off = None
        for (j, before, after) in self._all_jumps(x):
            if j <= x:
                off = after
            elif off is None:
                off = before
        return self.std_utcoff if off is None else off

    @staticmethod
    def _split(local):
        whole = int(local // 1)
        hs = int((local - whole) * 100 + 1e-6)
        dt = datetime.datetime(1970, 1, 1) + datetime.timedelta(seconds=whole)
        return dt.date(), (dt.hour, dt.minute, dt.second, hs)

    def civil(self, x, utcoff=None):
        """(date, (h, m, s, hundredths)) the local clock shows at instant x."""
        return self._split(x + (self.utcoff(x) if utcoff is None else utcoff))

    def instants_of(self, d, t):
        """Every instant at which the local clock shows date d, time t: none (skipped), one, or two (repeated)."""
        naive = calendar.timegm((d.year, d.month, d.day, 0, 0, 0)) + t[0] * 3600 + t[1] * 60 + t[2] + t[3] / 100.0
        out = []
        for off in sorted(set((self.std_utcoff, self.dst_utcoff)), reverse=True):
            x = float(naive - off)
            if self.utcoff(x) == off and x not in out:
                out.append(x)
        return sorted(out)

    def first_at_or_after(self, d, t):
        """The first instant at which the local clock shows (d, t) or, if that reading is skipped, the instant
        of the jump over it."""
        xs = self.instants_of(d, t)
        if xs:
            return xs[0]
        naive = calendar.timegm((d.year, d.month, d.day, 0, 0, 0)) + t[0] * 3600 + t[1] * 60 + t[2] + t[3] / 100.0
        for (j, before, after) in self._all_jumps(naive):
            if after > before and j + before <= naive < j + after:
                return j
        raise Undecided("no instant for %s %r" % (d, t))

    def second_pass_limit(self, x):
        """If instant x lies in the second pass of a repeated interval: the last civil (date, time) shown in the
        first pass (one hundredth before the clock was set back), provided it is later than civil(x); else None."""
        best = None
        for (j, before, after) in self._all_jumps(x):
            if after < before and j <= x < j + (before - after):
                best = self.civil(j - 0.01, utcoff=before)
        if best is not None and best > self.civil(x):
            return best
        return None
