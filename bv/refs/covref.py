"""Reference model and oracle for C16 (COV subscriptions), written from the property statement and
BACnet clause 13.1 / 13.14 / 12.11.  Nothing of bacpypes is imported or called here.

The model keeps

* per monitored object: the present value, the status flags, and the values carried by the last notification
  sent about this object to anybody (the *last reported* values; None while nobody is subscribed),
* per subscription, keyed (subscriber stack, process id, object): confirmed flag as last requested and the expiry
  instant (None = indefinite),

and turns every driver event into an *expectation* about what the subscribers may observe during that event
(an event is one instant: the driver acts, then the stacks run until nothing is due):

* subscribe / re-subscribe : exactly one SimpleAck to the requester, then exactly one notification on that
  subscription carrying the current values; nothing on any other subscription.  A re-subscription replaces the flag
  and re-times the record; there is never a second record.
* cancel                   : exactly one SimpleAck, no notification; the record is gone.
* write(s) in one instant  : for every live subscription of the object, N notifications with
      N = 0                      if no intermediate state of the instant qualifies against the last reported values
      1 <= N <= (changes from the first qualifying one on)   otherwise, the last one carrying the end-of-instant values
  qualifying = |value - last reported value| >= COV increment (objects with an increment) resp. value differs
  (others), or status flags differ from the last reported flags.  Nothing on subscriptions of other objects.
* time passes              : subscriptions whose expiry is reached are gone; no notification, except that an object
  with a COV period P may (the statement is silent, clause 13.1 allows it) send one notification per live
  subscription at each multiple of P; such a notification also becomes the last reported value.
* read active subscriptions: one ComplexAck listing exactly the live records (recipient, process, object), each
  with the flag as last requested and the remaining time.

Every notification must come on a live subscription, be confirmed/unconfirmed as last requested and carry
time remaining 0 for an indefinite subscription, else a value >= 1 within +-1 of floor(expiry - now).
"""
import math
import struct

TICK_EPS = 1e-3


def f32(x):
    """Value of a Real after it travelled in a PDU (IEEE single)."""
    return struct.unpack(">f", struct.pack(">f", x))[0]


class Rec(object):
    __slots__ = ("confirmed", "expiry", "created_at", "first_confirmed", "first_indefinite", "renewals")

    def __init__(self, confirmed, expiry, now):
        self.confirmed = confirmed
        self.expiry = expiry                    # None = indefinite
        self.created_at = now
        self.first_confirmed = confirmed        # diagnosis only: what the record was created with
        self.first_indefinite = expiry is None
        self.renewals = 0

    def canon(self, now):
        return (self.confirmed, None if self.expiry is None else round(self.expiry - now, 6))


class Obj(object):
    __slots__ = ("kind", "value", "flags", "reported", "increment", "period", "tick_done")

    def __init__(self, kind, value, increment=None, period=0):
        self.kind = kind
        self.value = value
        self.flags = (0, 0, 0, 0)
        self.reported = None                    # (value, flags) of the last notification about this object
        self.increment = increment
        self.period = period
        self.tick_done = -1.0                   # largest multiple of the period for which a periodic notification was seen

    def state(self):
        return (self.value, self.flags)

    def qualifies(self, state):
        """Does `state` have to be reported, given the last reported values?"""
        if self.reported is None:
            return False
        rv, rf = self.reported
        v, f = state
        if f != rf:
            return True
        if self.increment is not None:
            return abs(v - rv) >= self.increment
        return v != rv


class Expect(object):
    """What one event may show.  notif: key -> dict(lo, hi, final, why); keys not listed must stay silent."""

    def __init__(self, kind):
        self.kind = kind
        self.replies = {}           # stack index -> "ack" | "complex-ack"
        self.notif = {}
        self.ack_first = None       # key whose notification must come after the ack
        self.listing = None         # expected active list (list of dicts) or None
        self.ticks = None           # advance events: (t0, t1)
        self.t = None


class CovRef(object):
    def __init__(self, objects, now=0.0):
        """objects: kind -> dict(value=, increment=, period=)"""
        self.now = now
        self.objs = {k: Obj(k, d["value"], d.get("increment"), d.get("period", 0)) for k, d in objects.items()}
        self.recs = {}              # (stack, pid, kind) -> Rec
        self.gone = {}              # key -> "cancelled" | "expired"   (diagnosis)

    # ------------------------------------------------------------------ helpers
    def live(self, kind=None):
        return sorted(k for k in self.recs if kind is None or k[2] == kind)

    def _expire(self, t):
        for k in list(self.recs):
            e = self.recs[k].expiry
            if e is not None and e <= t:
                del self.recs[k]
                self.gone[k] = "expired"
        self._forget_unwatched()

    def _forget_unwatched(self):
        for o in self.objs.values():
            if o.reported is not None and not self.live(o.kind):
                o.reported = None

    def canon(self):
        return (tuple((k, self.recs[k].canon(self.now)) for k in sorted(self.recs)),
                tuple((o.kind, o.value, o.flags, o.reported,
                       (o.tick_done >= self.now - TICK_EPS) if o.period else None)
                      for o in (self.objs[k] for k in sorted(self.objs))))

    # ------------------------------------------------------------------ events -> expectations
    def subscribe(self, key, confirmed, lifetime):
        """lifetime: seconds, 0 or None = indefinite (clause 13.14.1.1.4)"""
        stack, pid, kind = key
        exp = Expect("subscribe")
        exp.t = self.now
        exp.replies[stack] = "ack"
        expiry = (self.now + lifetime) if lifetime else None
        rec = self.recs.get(key)
        if rec is None:
            self.recs[key] = Rec(bool(confirmed), expiry, self.now)
            self.gone.pop(key, None)
        else:
            rec.confirmed = bool(confirmed)
            rec.expiry = expiry
            rec.renewals += 1
        o = self.objs[kind]
        exp.notif[key] = dict(lo=1, hi=1, final=o.state(), why="initial notification after (re-)subscription")
        exp.ack_first = key
        o.reported = o.state()
        return exp

    def cancel(self, key):
        exp = Expect("cancel")
        exp.t = self.now
        exp.replies[key[0]] = "ack"
        if key in self.recs:
            del self.recs[key]
            self.gone[key] = "cancelled"
        self._forget_unwatched()
        return exp

    def write(self, kind, states):
        """states: the successive (value, flags) the object takes in this instant (1 or 2 writes)."""
        exp = Expect("write")
        exp.t = self.now
        o = self.objs[kind]
        prev = o.state()
        first = None
        changes_after = 0
        for i, st in enumerate(states):
            if first is None and o.qualifies(st):
                first = i
            if first is not None and st != prev:
                changes_after += 1
            prev = st
        o.value, o.flags = states[-1]
        if first is not None:
            for key in self.live(kind):
                exp.notif[key] = dict(lo=1, hi=max(1, changes_after), final=o.state(), why="qualifying change")
            if self.live(kind):
                o.reported = o.state()
        return exp

    def write_many(self, writes):
        """Several objects are written in one instant: [(kind, states), ...], every kind at most once.  Objects are
        independent of each other, so the expectation is the union of the expectations per object."""
        if len(set(k for k, _ in writes)) != len(writes):
            raise ValueError("an object may appear once in a multi-object write")
        exp = Expect("write")
        exp.t = self.now
        for kind, states in writes:
            exp.notif.update(self.write(kind, states).notif)
        return exp

    def advance(self, dt):
        """Time passes.  Expiry is applied after the expectation was judged (see settle_advance)."""
        exp = Expect("advance")
        exp.ticks = (self.now, self.now + dt)
        exp.t = self.now + dt
        return exp

    def read_active(self, stack):
        exp = Expect("read")
        exp.t = self.now
        exp.replies[stack] = "complex-ack"
        exp.listing = [dict(key=k, confirmed=self.recs[k].confirmed, rec=self.recs[k]) for k in self.live()]
        return exp

    # ------------------------------------------------------------------ remaining time
    def remaining_problem(self, rec, observed, t):
        """None if `observed` is an acceptable time-remaining for rec at time t, else (root cause, detail)."""
        if rec.expiry is None:
            if observed == 0:
                return None
            cause = "remaining-time-nonzero-for-indefinite"
            if rec.renewals and not rec.first_indefinite:
                cause = "renewal-keeps-old-lifetime:timed-renewed-as-indefinite-still-counts-down"
            return cause, {"observed": observed, "expected": 0}
        want = int(math.floor(rec.expiry - t + 1e-9))
        if isinstance(observed, int) and observed >= 1 and abs(observed - want) <= 1:
            return None
        cause = "remaining-time-wrong"
        if observed == 0:
            cause = "remaining-time-0-for-timed-subscription"
            if rec.renewals and rec.first_indefinite:
                cause = "renewal-keeps-old-lifetime:indefinite-renewed-as-timed-reports-0"
        return cause, {"observed": observed, "expected": max(1, want), "tolerance": 1}

    def confirmed_problem(self, rec, observed):
        if bool(observed) == rec.confirmed:
            return None
        cause = "notification-kind-not-as-requested"
        if rec.renewals and bool(observed) == rec.first_confirmed:
            cause = "renewal-keeps-old-confirmed-flag"
        return cause, {"observed_confirmed": bool(observed), "requested_confirmed": rec.confirmed}

    # ------------------------------------------------------------------ the oracle
    def judge(self, exp, notes, replies, listing, ctx):
        """Compare one event's observation with its expectation.

        notes   : per stack, the notifications received during the event (dicts of covsys.SubscriberApp)
        replies : per stack, [(seq, time, invoke id, neutral reply), ...]
        listing : decoded active-subscription list of a read event (or None)
        ctx     : dict(obj_ids: kind -> object identifier, device: device identifier, macs: stack -> mac octets,
                       device_addr: str)
        Returns a list of (root-cause signature, detail).  Also applies what only the observation can tell
        (periodic notifications move the last reported value) and, for advance events, the expiries."""
        problems = []
        kind_of = {tuple(v): k for k, v in ctx["obj_ids"].items()}

        # ---- replies
        for stack, got in enumerate(replies):
            want = exp.replies.get(stack)
            kinds = [r[3][0] for r in got]
            if want is None:
                if got:
                    problems.append(("cov:unexpected-reply", {"stack": stack, "replies": [r[3] for r in got]}))
            elif kinds != [want]:
                what = "no-reply" if not got else ("%d-replies" % len(got) if len(got) > 1 else "%s-instead" % "/".join(map(str, got[0][3])))
                problems.append(("cov:%s-request-not-acknowledged:%s" % (exp.kind, what),
                                 {"stack": stack, "replies": [r[3] for r in got], "expected": want}))

        # ---- notifications: attribute each to a subscription
        per_key = {}
        for stack, got in enumerate(notes):
            for n in got:
                kind = kind_of.get(n["obj"])
                key = (stack, n["pid"], kind)
                per_key.setdefault(key, []).append(n)
                if n["device"] != tuple(ctx["device"]) or n["src"] != ctx["device_addr"]:
                    problems.append(("cov:notification-names-wrong-initiating-device", {"note": _brief(n)}))

        if exp.kind == "advance":
            self._judge_ticks(exp, per_key, problems)
        else:
            for key, got in sorted(per_key.items(), key=repr):
                rec = self.recs.get(key)
                if rec is None:
                    why = self.gone.get(key, "never-subscribed")
                    problems.append(("cov:notification-without-live-subscription:%s" % why,
                                     {"key": key, "notes": [_brief(n) for n in got], "during": exp.kind}))
                    continue
                bound = exp.notif.get(key)
                if bound is None:
                    problems.append(("cov:notification-without-qualifying-change:during-%s" % exp.kind,
                                     {"key": key, "notes": [_brief(n) for n in got],
                                      "last_reported": self.objs[key[2]].reported if exp.kind != "write" else "see history"}))
                    continue
                if len(got) > bound["hi"]:
                    problems.append(("cov:more-notifications-than-qualifying-changes:%s" % exp.kind,
                                     {"key": key, "got": len(got), "at_most": bound["hi"], "notes": [_brief(n) for n in got]}))
                self._judge_notes(key, rec, got, bound["final"], problems)
            for key, bound in sorted(exp.notif.items(), key=repr):
                if len(per_key.get(key, ())) < bound["lo"]:
                    what = "initial-notification-missing" if exp.kind == "subscribe" else "qualifying-change-not-notified"
                    problems.append(("cov:%s" % what, {"key": key, "why": bound["why"], "expected_values": bound["final"],
                                                        "got": len(per_key.get(key, ()))}))
            if exp.ack_first is not None:
                key = exp.ack_first
                acks = [r[0] for r in replies[key[0]] if r[3][0] == "ack"]
                first_note = [n["seq"] for n in per_key.get(key, ())]
                if acks and first_note and min(first_note) < acks[0]:
                    problems.append(("cov:initial-notification-before-the-ack", {"key": key}))

        # ---- the active-subscription list
        if exp.kind == "read" and not any(p[0].startswith("cov:read-request-not-acknowledged") for p in problems):
            self._judge_listing(exp, listing, ctx, problems)
        return problems

    def _judge_notes(self, key, rec, got, final, problems, t=None):
        for n in got:
            p = self.confirmed_problem(rec, n["confirmed"])
            if p:
                problems.append(("cov:%s:notification" % p[0], dict(p[1], key=key, note=_brief(n))))
            p = self.remaining_problem(rec, n["remaining"], n["t"] if t is None else t)
            if p:
                problems.append(("cov:%s:notification" % p[0], dict(p[1], key=key, note=_brief(n), now=n["t"], expiry=rec.expiry)))
        if got and final is not None:
            carried = carried_values(got[-1])
            want = {"presentValue": final[0] if not isinstance(final[0], float) else f32(final[0]), "statusFlags": tuple(final[1])}
            if carried != want:
                problems.append(("cov:notification-does-not-carry-the-current-values",
                                 {"key": key, "carried": carried, "current": want, "note": _brief(got[-1])}))

    def _judge_ticks(self, exp, per_key, problems):
        t0, t1 = exp.ticks
        seen_m = {}
        for key, got in sorted(per_key.items(), key=repr):
            o = self.objs.get(key[2])
            rec = self.recs.get(key)
            used = set()
            for n in got:
                t = n["t"]
                m = None
                if o is not None and o.period:
                    cand = round(t / o.period) * o.period
                    if abs(t - cand) <= TICK_EPS and t0 - TICK_EPS <= cand <= t1 + TICK_EPS and cand > o.tick_done + TICK_EPS \
                            and cand not in used:
                        m = cand
                if m is None:
                    why = "while-time-passes"
                    if rec is None:
                        why = self.gone.get(key, "never-subscribed")
                    elif rec.expiry is not None and rec.expiry <= t + TICK_EPS:
                        why = "expired"
                    problems.append(("cov:notification-without-live-subscription:%s" % why if why != "while-time-passes"
                                     else "cov:notification-without-qualifying-change:while-time-passes",
                                     {"key": key, "note": _brief(n), "interval": (t0, t1)}))
                    continue
                used.add(m)
                if rec is None or rec.created_at > m + TICK_EPS or (rec.expiry is not None and rec.expiry < m - TICK_EPS):
                    why = "expired" if rec is not None and rec.created_at <= m + TICK_EPS else self.gone.get(key, "never-subscribed")
                    problems.append(("cov:notification-without-live-subscription:%s" % why,
                                     {"key": key, "note": _brief(n), "periodic": m}))
                    continue
                seen_m.setdefault(key[2], set()).add(m)
                self._judge_notes(key, rec, [n], o.state(), problems)
        # what the observation decides: a periodic notification is a report
        self.now = t1
        self._expire(t1)
        for kind, ms in seen_m.items():
            o = self.objs[kind]
            o.tick_done = max(o.tick_done, max(ms))
            if self.live(kind):
                o.reported = o.state()

    def _judge_listing(self, exp, listing, ctx, problems):
        if listing is None:
            problems.append(("cov:active-subscriptions-not-readable", {}))
            return
        want = {}
        for ent in exp.listing:
            stack, pid, kind = ent["key"]
            want[(ctx["macs"][stack], pid, tuple(ctx["obj_ids"][kind]))] = ent
        got = {}
        dup = []
        for (net, mac, pid, obj, prop, confirmed, remaining, inc) in listing:
            ident = (mac, pid, tuple(obj))
            if ident in got:
                dup.append(ident)
            got[ident] = (confirmed, remaining, net)
        if dup:
            problems.append(("cov:active-list-shows-a-subscription-twice", {"twice": dup, "listing": listing}))
        missing = sorted(set(want) - set(got), key=repr)
        extra = sorted(set(got) - set(want), key=repr)
        if missing:
            problems.append(("cov:active-list-misses-a-live-subscription", {"missing": missing, "listing": listing}))
        if extra:
            reasons = sorted(set(self._gone_reason(e, ctx) for e in extra))
            problems.append(("cov:active-list-shows-a-dead-subscription:%s" % "+".join(reasons), {"extra": extra, "listing": listing}))
        for ident in sorted(set(want) & set(got), key=repr):
            rec = want[ident]["rec"]
            confirmed, remaining, net = got[ident]
            p = self.confirmed_problem(rec, confirmed)
            if p:
                problems.append(("cov:%s:active-list" % p[0], dict(p[1], entry=ident)))
            p = self.remaining_problem(rec, remaining, self.now)
            if p:
                problems.append(("cov:%s:active-list" % p[0], dict(p[1], entry=ident, now=self.now, expiry=rec.expiry)))

    def _gone_reason(self, ident, ctx):
        mac, pid, obj = ident
        for key, why in self.gone.items():
            if ctx["macs"].get(key[0]) == mac and key[1] == pid and tuple(ctx["obj_ids"][key[2]]) == obj:
                return why
        return "never-subscribed"


def carried_values(note):
    """{'presentValue': v, 'statusFlags': flags} of a notification (other properties are tolerated)."""
    out = {}
    for (prop, index, vals, prio) in note["values"]:
        if prop in ("presentValue", "statusFlags") and index is None and len(vals) == 1:
            out[prop] = vals[0]
    return out


def _brief(n):
    return {"t": n["t"], "confirmed": n["confirmed"], "pid": n["pid"], "obj": n["obj"], "remaining": n["remaining"],
            "values": carried_values(n)}
