"""Reference for BACnet/IP BVLL framing, ANSI/ASHRAE 135 Annex J.2.  Written from the standard; it never
imports bacpypes (and does not use the socket module for address conversion either).

Every BVLL message starts with the BVLCI

    BVLC Type      1 octet   0x81 (BACnet/IP)
    BVLC Function  1 octet
    BVLC Length    2 octets  big endian, length in octets of the whole message including these four

J.2.1   0x00 BVLC-Result                          length 6      result code (2)
J.2.2   0x01 Write-Broadcast-Distribution-Table   length 4+10N  N x (B/IP address (6), distribution mask (4))
J.2.3   0x02 Read-Broadcast-Distribution-Table    length 4
J.2.4   0x03 Read-Broadcast-Distribution-Table-Ack length 4+10N N x (B/IP address (6), distribution mask (4))
J.2.5   0x04 Forwarded-NPDU                       length 10+L   B/IP address of the originating device (6), NPDU (L)
J.2.6   0x05 Register-Foreign-Device              length 6      time-to-live (2)
J.2.7   0x06 Read-Foreign-Device-Table            length 4
J.2.8   0x07 Read-Foreign-Device-Table-Ack        length 4+10N  N x (B/IP address (6), time-to-live (2), remaining (2))
J.2.9   0x08 Delete-Foreign-Device-Table-Entry    length 10     B/IP address (6)
J.2.10  0x09 Distribute-Broadcast-To-Network      length 4+L    NPDU
J.2.11  0x0A Original-Unicast-NPDU                length 4+L    NPDU
J.2.12  0x0B Original-Broadcast-NPDU              length 4+L    NPDU

A B/IP address (J.1.2) is the four octets of the IPv4 address followed by the two octets of the UDP port, both
most significant octet first.

Parameters are plain dicts:
    0x00 {"code"}   0x01/0x03 {"bdt": [(ip, port, mask)]}   0x04 {"addr": (ip, port), "npdu": bytes}
    0x05 {"ttl"}    0x07 {"fdt": [(ip, port, ttl, remaining)]}   0x08 {"addr": (ip, port)}
    0x09/0x0A/0x0B {"npdu": bytes}   0x02/0x06 {}
with ip a dotted-quad string.
"""

TYPE_BIP = 0x81

RESULT = 0x00
WRITE_BDT = 0x01
READ_BDT = 0x02
READ_BDT_ACK = 0x03
FORWARDED_NPDU = 0x04
REGISTER_FD = 0x05
READ_FDT = 0x06
READ_FDT_ACK = 0x07
DELETE_FDT_ENTRY = 0x08
DISTRIBUTE_BROADCAST = 0x09
ORIGINAL_UNICAST = 0x0A
ORIGINAL_BROADCAST = 0x0B

FUNCTIONS = {
    RESULT: "Result",
    WRITE_BDT: "Write-Broadcast-Distribution-Table",
    READ_BDT: "Read-Broadcast-Distribution-Table",
    READ_BDT_ACK: "Read-Broadcast-Distribution-Table-Ack",
    FORWARDED_NPDU: "Forwarded-NPDU",
    REGISTER_FD: "Register-Foreign-Device",
    READ_FDT: "Read-Foreign-Device-Table",
    READ_FDT_ACK: "Read-Foreign-Device-Table-Ack",
    DELETE_FDT_ENTRY: "Delete-Foreign-Device-Table-Entry",
    DISTRIBUTE_BROADCAST: "Distribute-Broadcast-To-Network",
    ORIGINAL_UNICAST: "Original-Unicast-NPDU",
    ORIGINAL_BROADCAST: "Original-Broadcast-NPDU",
}

OK = "ok"                       # well-formed frame of one of the twelve functions
REFUSE = "refuse"               # type or length disagree with the datagram, or the body is cut short
UNKNOWN = "unknown-function"    # BVLCI agrees with the datagram, function not one of the twelve (not judged here)


def u16(n):
    return bytes([(n >> 8) & 0xFF, n & 0xFF])


def u32(n):
    return bytes([(n >> 24) & 0xFF, (n >> 16) & 0xFF, (n >> 8) & 0xFF, n & 0xFF])


def ip_octets(ip):
    parts = ip.split(".")
    if len(parts) != 4:
        raise ValueError(ip)
    out = bytes(int(p) for p in parts)
    return out


def ip_text(o):
    return "%d.%d.%d.%d" % (o[0], o[1], o[2], o[3])


def bip_address(ip, port):
    """six octets of J.1.2"""
    if not 0 <= port <= 0xFFFF:
        raise ValueError(port)
    return ip_octets(ip) + u16(port)


def encode_body(function, p):
    if function == RESULT:
        return u16(p["code"])
    if function in (WRITE_BDT, READ_BDT_ACK):
        return b"".join(bip_address(ip, port) + u32(mask) for (ip, port, mask) in p["bdt"])
    if function in (READ_BDT, READ_FDT):
        return b""
    if function == FORWARDED_NPDU:
        return bip_address(*p["addr"]) + bytes(p["npdu"])
    if function == REGISTER_FD:
        return u16(p["ttl"])
    if function == READ_FDT_ACK:
        return b"".join(bip_address(ip, port) + u16(ttl) + u16(rem) for (ip, port, ttl, rem) in p["fdt"])
    if function == DELETE_FDT_ENTRY:
        return bip_address(*p["addr"])
    if function in (DISTRIBUTE_BROADCAST, ORIGINAL_UNICAST, ORIGINAL_BROADCAST):
        return bytes(p["npdu"])
    raise ValueError("no such function 0x%02X" % function)


def frame(function, body, type_octet=TYPE_BIP, length=None):
    """BVLCI + body; `length` overrides the length field (for malformed inbound frames)"""
    body = bytes(body)
    if length is None:
        length = 4 + len(body)
    return bytes([type_octet, function]) + u16(length) + body


def encode(function, p):
    return frame(function, encode_body(function, p))


def header_ok(octets):
    """the first sentence of the property, on any emitted frame: type 0x81, length field == number of octets"""
    b = bytes(octets)
    if len(b) < 4:
        return "shorter-than-bvlci"
    if b[0] != TYPE_BIP:
        return "type-octet"
    if ((b[2] << 8) | b[3]) != len(b):
        return "length-field"
    return None


def decode_body(function, body):
    """-> (OK, params, trailing octets) | (REFUSE, None, reason)"""
    b = bytes(body)
    n = len(b)

    def addr(i):
        return (ip_text(b[i:i + 4]), (b[i + 4] << 8) | b[i + 5])

    if function in (RESULT, REGISTER_FD):
        if n < 2:
            return REFUSE, None, "short-body"
        return OK, {"code" if function == RESULT else "ttl": (b[0] << 8) | b[1]}, b[2:]
    if function in (WRITE_BDT, READ_BDT_ACK):
        if n % 10:
            return REFUSE, None, "partial-table-entry"
        out = []
        for i in range(0, n, 10):
            ip, port = addr(i)
            out.append((ip, port, (b[i + 6] << 24) | (b[i + 7] << 16) | (b[i + 8] << 8) | b[i + 9]))
        return OK, {"bdt": out}, b""
    if function in (READ_BDT, READ_FDT):
        return OK, {}, b
    if function == FORWARDED_NPDU:
        if n < 6:
            return REFUSE, None, "short-body"
        return OK, {"addr": addr(0), "npdu": b[6:]}, b""
    if function == READ_FDT_ACK:
        if n % 10:
            return REFUSE, None, "partial-table-entry"
        out = []
        for i in range(0, n, 10):
            ip, port = addr(i)
            out.append((ip, port, (b[i + 6] << 8) | b[i + 7], (b[i + 8] << 8) | b[i + 9]))
        return OK, {"fdt": out}, b""
    if function == DELETE_FDT_ENTRY:
        if n < 6:
            return REFUSE, None, "short-body"
        return OK, {"addr": addr(0)}, b[6:]
    if function in (DISTRIBUTE_BROADCAST, ORIGINAL_UNICAST, ORIGINAL_BROADCAST):
        return OK, {"npdu": b}, b""
    raise ValueError("no such function 0x%02X" % function)


def decode(octets):
    """-> (status, function or None, params or None, reason / trailing octets)

    REFUSE  reason in: shorter-than-bvlci, type-octet, length-field, short-body, partial-table-entry
    UNKNOWN BVLCI consistent with the datagram, function outside Annex J.2.1-J.2.12
    OK      params as documented; the fourth element holds octets following a complete fixed-size body
            (reported, not judged)"""
    b = bytes(octets)
    if len(b) < 4:
        if len(b) >= 1 and b[0] != TYPE_BIP:
            return REFUSE, None, None, "type-octet"
        return REFUSE, None, None, "shorter-than-bvlci"
    if b[0] != TYPE_BIP:
        return REFUSE, None, None, "type-octet"
    function = b[1]
    if ((b[2] << 8) | b[3]) != len(b):
        return REFUSE, function, None, "length-field"
    if function not in FUNCTIONS:
        return UNKNOWN, function, None, ""
    st, p, extra = decode_body(function, b[4:])
    if st == REFUSE:
        return REFUSE, function, None, extra
    return OK, function, p, extra
