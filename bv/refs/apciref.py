"""Reference of the fixed APDU headers of ANSI/ASHRAE 135 clause 20.1.2 - 20.1.9.

Written out by hand from the figures of the standard; nothing here imports or
calls bacpypes.  Bit 7 is the most significant bit of an octet.

20.1.2  BACnet-Confirmed-Request-PDU        20.1.5  BACnet-ComplexACK-PDU
        7 6 5 4   3   2   1  0                      7 6 5 4   3   2  1 0
       |PDU type|SEG|MOR|SA |0|                    |PDU type|SEG|MOR|0|0|
       |0|max segs |max resp  |                    |original invoke ID  |
       |invoke ID             |                    |sequence number     |  only if SEG = 1
       |sequence number       |  only if SEG = 1   |proposed window size|  only if SEG = 1
       |proposed window size  |  only if SEG = 1   |service ACK choice  |
       |service choice        |                    |service ACK ...     |
       |service request ...   |

20.1.3  BACnet-Unconfirmed-Request-PDU      20.1.6  BACnet-SegmentACK-PDU
       |PDU type|0|0|0|0|                          |PDU type|0|0|NAK|SRV|
       |service choice   |                         |original invoke ID  |
       |service request ...                        |sequence number     |
                                                   |actual window size  |
20.1.4  BACnet-SimpleACK-PDU
       |PDU type|0|0|0|0|                   20.1.7  BACnet-Error-PDU
       |original invoke ID|                        |PDU type|0|0|0|0|
       |service ACK choice|                        |original invoke ID|
                                                   |error choice      |
20.1.8  BACnet-Reject-PDU                          |error ...         |
       |PDU type|0|0|0|0|
       |original invoke ID|                 20.1.9  BACnet-Abort-PDU
       |reject reason     |                        |PDU type|0|0|0|SRV|
                                                   |original invoke ID|
                                                   |abort reason      |

PDU type: 0 confirmed request, 1 unconfirmed request, 2 simple ack, 3 complex
ack, 4 segment ack, 5 error, 6 reject, 7 abort; 8..15 are not defined.

A header is described by a plain dict with the keys below (only the keys of the
PDU type are present; `seq`/`win` only when `seg` is true):

    type  seg mor sa  maxsegs maxresp  invoke seq win  service  nak srv  reason
"""

CONFIRMED_REQUEST = 0
UNCONFIRMED_REQUEST = 1
SIMPLE_ACK = 2
COMPLEX_ACK = 3
SEGMENT_ACK = 4
ERROR = 5
REJECT = 6
ABORT = 7

TYPE_NAMES = {
    0: "ConfirmedRequest", 1: "UnconfirmedRequest", 2: "SimpleAck", 3: "ComplexAck",
    4: "SegmentAck", 5: "Error", 6: "Reject", 7: "Abort",
}

# PDU types after whose fixed header the standard defines further content
# (service request / service ack / error parameters).  The other four end
# with the last header octet.
CARRIES_DATA = {0: True, 1: True, 2: False, 3: True, 4: False, 5: True, 6: False, 7: False}

ALL_FIELDS = ("type", "seg", "mor", "sa", "maxsegs", "maxresp", "invoke", "seq", "win",
              "service", "nak", "srv", "reason")


class Truncated(Exception):
    """the octet string ends inside the fixed header"""


class InvalidType(Exception):
    """PDU type 8..15"""


def _octet(v, what):
    if isinstance(v, bool) or not isinstance(v, int) or not 0 <= v <= 255:
        raise ValueError("%s is not an octet: %r" % (what, v))
    return v


def fields_of(t, seg=False):
    """Names of the header fields of PDU type t, in the order they appear."""
    if t == CONFIRMED_REQUEST:
        return ("type", "seg", "mor", "sa", "maxsegs", "maxresp", "invoke") + (("seq", "win") if seg else ()) + ("service",)
    if t == UNCONFIRMED_REQUEST:
        return ("type", "service")
    if t == SIMPLE_ACK:
        return ("type", "invoke", "service")
    if t == COMPLEX_ACK:
        return ("type", "seg", "mor", "invoke") + (("seq", "win") if seg else ()) + ("service",)
    if t == SEGMENT_ACK:
        return ("type", "nak", "srv", "invoke", "seq", "win")
    if t == ERROR:
        return ("type", "invoke", "service")
    if t == REJECT:
        return ("type", "invoke", "reason")
    if t == ABORT:
        return ("type", "srv", "invoke", "reason")
    raise InvalidType(t)


def build_header(f):
    """Octets of the fixed header described by the dict f (clause 20.1.2 - 20.1.9)."""
    t = f["type"]
    out = []
    if t == CONFIRMED_REQUEST:
        first = 0x00
        if f["seg"]:
            first |= 0x08       # bit 3
        if f["mor"]:
            first |= 0x04       # bit 2
        if f["sa"]:
            first |= 0x02       # bit 1; bit 0 is reserved, zero
        out.append(first)
        if not 0 <= f["maxsegs"] <= 7 or not 0 <= f["maxresp"] <= 15:
            raise ValueError("code out of range")
        out.append((f["maxsegs"] * 16) | f["maxresp"])      # bit 7 reserved zero, bits 6..4, bits 3..0
        out.append(_octet(f["invoke"], "invoke"))
        if f["seg"]:
            out.append(_octet(f["seq"], "seq"))
            out.append(_octet(f["win"], "win"))
        out.append(_octet(f["service"], "service"))
    elif t == UNCONFIRMED_REQUEST:
        out.append(0x10)
        out.append(_octet(f["service"], "service"))
    elif t == SIMPLE_ACK:
        out.append(0x20)
        out.append(_octet(f["invoke"], "invoke"))
        out.append(_octet(f["service"], "service"))
    elif t == COMPLEX_ACK:
        first = 0x30
        if f["seg"]:
            first |= 0x08
        if f["mor"]:
            first |= 0x04
        out.append(first)
        out.append(_octet(f["invoke"], "invoke"))
        if f["seg"]:
            out.append(_octet(f["seq"], "seq"))
            out.append(_octet(f["win"], "win"))
        out.append(_octet(f["service"], "service"))
    elif t == SEGMENT_ACK:
        first = 0x40
        if f["nak"]:
            first |= 0x02       # bit 1
        if f["srv"]:
            first |= 0x01       # bit 0
        out.append(first)
        out.append(_octet(f["invoke"], "invoke"))
        out.append(_octet(f["seq"], "seq"))
        out.append(_octet(f["win"], "win"))
    elif t == ERROR:
        out.append(0x50)
        out.append(_octet(f["invoke"], "invoke"))
        out.append(_octet(f["service"], "service"))
    elif t == REJECT:
        out.append(0x60)
        out.append(_octet(f["invoke"], "invoke"))
        out.append(_octet(f["reason"], "reason"))
    elif t == ABORT:
        first = 0x70
        if f["srv"]:
            first |= 0x01
        out.append(first)
        out.append(_octet(f["invoke"], "invoke"))
        out.append(_octet(f["reason"], "reason"))
    else:
        raise InvalidType(t)
    return bytes(out)


def parse_header(data):
    """-> (fields dict, header length, reserved_bits_set).

    Raises Truncated when data ends inside the fixed header (or is empty) and
    InvalidType for PDU types 8..15.  Reserved bits are reported, not judged:
    the standard says senders set them to zero and says nothing about receivers."""
    data = bytes(data)
    pos = [0]

    def nxt():
        if pos[0] >= len(data):
            raise Truncated(pos[0])
        v = data[pos[0]]
        pos[0] += 1
        return v

    first = nxt()
    t = first >> 4
    f = {"type": t}
    reserved = False
    if t == CONFIRMED_REQUEST:
        f["seg"] = bool(first & 0x08)
        f["mor"] = bool(first & 0x04)
        f["sa"] = bool(first & 0x02)
        reserved = bool(first & 0x01)
        second = nxt()
        reserved = reserved or bool(second & 0x80)
        f["maxsegs"] = (second >> 4) & 0x07
        f["maxresp"] = second & 0x0F
        f["invoke"] = nxt()
        if f["seg"]:
            f["seq"] = nxt()
            f["win"] = nxt()
        f["service"] = nxt()
    elif t == UNCONFIRMED_REQUEST:
        reserved = bool(first & 0x0F)
        f["service"] = nxt()
    elif t == SIMPLE_ACK:
        reserved = bool(first & 0x0F)
        f["invoke"] = nxt()
        f["service"] = nxt()
    elif t == COMPLEX_ACK:
        f["seg"] = bool(first & 0x08)
        f["mor"] = bool(first & 0x04)
        reserved = bool(first & 0x03)
        f["invoke"] = nxt()
        if f["seg"]:
            f["seq"] = nxt()
            f["win"] = nxt()
        f["service"] = nxt()
    elif t == SEGMENT_ACK:
        reserved = bool(first & 0x0C)
        f["nak"] = bool(first & 0x02)
        f["srv"] = bool(first & 0x01)
        f["invoke"] = nxt()
        f["seq"] = nxt()
        f["win"] = nxt()
    elif t == ERROR:
        reserved = bool(first & 0x0F)
        f["invoke"] = nxt()
        f["service"] = nxt()
    elif t == REJECT:
        reserved = bool(first & 0x0F)
        f["invoke"] = nxt()
        f["reason"] = nxt()
    elif t == ABORT:
        reserved = bool(first & 0x0E)
        f["srv"] = bool(first & 0x01)
        f["invoke"] = nxt()
        f["reason"] = nxt()
    else:
        raise InvalidType(t)
    return f, pos[0], reserved


# ----------------------------------------------------------------------------- code tables

GREATER_THAN_64 = ">64"
UNSPECIFIED = "unspecified"

# 20.1.2.4 max-segments-accepted
MAX_SEGMENTS_TABLE = {
    0: UNSPECIFIED,         # B'000' unspecified number of segments accepted
    1: 2,                   # B'001' 2 segments accepted
    2: 4,                   # B'010' 4 segments accepted
    3: 8,                   # B'011' 8 segments accepted
    4: 16,                  # B'100' 16 segments accepted
    5: 32,                  # B'101' 32 segments accepted
    6: 64,                  # B'110' 64 segments accepted
    7: GREATER_THAN_64,     # B'111' greater than 64 segments accepted
}

# 20.1.2.5 max-APDU-length-accepted
MAX_APDU_TABLE = {
    0: 50,                  # B'0000' up to MinimumMessageSize (50 octets)
    1: 128,                 # B'0001' up to 128 octets
    2: 206,                 # B'0010' up to 206 octets (fits in a LonTalk frame)
    3: 480,                 # B'0011' up to 480 octets (fits in an ARCNET frame)
    4: 1024,                # B'0100' up to 1024 octets
    5: 1476,                # B'0101' up to 1476 octets (fits in an ISO 8802-3 frame)
}                           # B'0110' .. B'1111' reserved by ASHRAE


def max_segments_code(capability):
    """Code a device that can take `capability` segments announces: the code whose
    meaning is the largest one not above the capability.  None when every numeric
    code would overstate it (capability 0 or 1)."""
    if capability > 64:
        return 7
    best = None
    for code in (1, 2, 3, 4, 5, 6):
        if MAX_SEGMENTS_TABLE[code] <= capability:
            best = code
    return best


def max_apdu_code(capability):
    """Code of the largest table length not above the capability, None below 50."""
    best = None
    for code in (0, 1, 2, 3, 4, 5):
        if MAX_APDU_TABLE[code] <= capability:
            best = code
    return best
