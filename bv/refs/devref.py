"""Reference for C10: is a raw frame still a *well-framed, unsegmented confirmed request addressed to the device*?

Written from clauses 6.2 (NPCI), 20.1.2 (Confirmed-Request header) and Annex J.2 (BVLL); no bacpypes import.
Returns a dict {"judged": bool, "invoke": int, "why": str}: judged=True means the statement's first sentence
applies (exactly one reply with that invoke ID); judged=False means only the health part applies.
"""

DEFINED_MAX_APDU_CODES = (0, 1, 2, 3, 4, 5)


def not_judged(why):
    return {"judged": False, "invoke": None, "why": why}


def classify_npdu(data):
    if len(data) < 2:
        return not_judged("npdu-too-short")
    if data[0] != 0x01:
        return not_judged("version-not-1")
    ctl = data[1]
    if ctl & 0x80:
        return not_judged("network-layer-message")
    if ctl & 0x50:
        return not_judged("reserved-control-bits")
    p = 2
    if ctl & 0x20:
        return not_judged("has-destination-specifier")       # routed / broadcast forms are not insisted on
    if ctl & 0x08:
        if len(data) < p + 3:
            return not_judged("snet-truncated")
        snet = (data[p] << 8) | data[p + 1]
        slen = data[p + 2]
        p += 3
        if snet in (0, 0xFFFF) or slen == 0:
            return not_judged("forbidden-source-specifier")
        if len(data) < p + slen:
            return not_judged("sadr-truncated")
        p += slen
    apdu = data[p:]
    return classify_apdu(apdu)


def classify_apdu(apdu):
    if len(apdu) < 4:
        return not_judged("apdu-header-incomplete")
    b0 = apdu[0]
    if (b0 >> 4) != 0:
        return not_judged("not-a-confirmed-request")
    if b0 & 0x08:
        return not_judged("segmented")
    if b0 & 0x04:
        return not_judged("more-follows-without-segmented")
    if b0 & 0x01:
        return not_judged("reserved-bit-in-first-octet")
    if apdu[1] & 0x80:
        return not_judged("reserved-bit-in-second-octet")
    if (apdu[1] & 0x0F) not in DEFINED_MAX_APDU_CODES:
        return not_judged("reserved-max-apdu-code")
    return {"judged": True, "invoke": apdu[2], "why": "intact-header", "service": apdu[3]}


def classify_bvll(data):
    if len(data) < 4:
        return not_judged("bvll-too-short")
    if data[0] != 0x81:
        return not_judged("bvll-type")
    if ((data[2] << 8) | data[3]) != len(data):
        return not_judged("bvll-length")
    if data[1] == 0x0A:
        return classify_npdu(data[4:])
    if data[1] == 0x04:
        if len(data) < 10:
            return not_judged("forwarded-npdu-too-short")
        return not_judged("forwarded-npdu")      # reply goes to the originating address, not to the sender: not insisted on
    return not_judged("bvll-function-%02x" % data[1])


def classify(data, level):
    return classify_npdu(data) if level == "lan" else classify_bvll(data)


def strip_bvll(data):
    """NPDU octets of a unicast / broadcast BVLL frame the device sent (or None)."""
    if len(data) >= 4 and data[0] == 0x81 and data[1] in (0x0A, 0x0B):
        return data[4:]
    return None


# ---------------------------------------------------------------- DeviceCommunicationControl (clause 16.1)
# The one service by which a device may rightfully fall silent.  dcc_effect says what a frame does to the
# communication state: ("none",) nothing or enable / disable-initiation / an undefined or absent enable-disable value
# (none of which the standard lets silence a device), ("disable", minutes) a request that disables it (minutes 0 =
# until told otherwise), ("maybe",) anything that could be read as such a request by a more lenient parser than this
# one - the caller then does not insist on replies until communication has been enabled again.

def _ctx_tags(data):
    """Strict context-tag scan of DCC service data -> [(number, content)] or None."""
    out, p = [], 0
    while p < len(data):
        b = data[p]
        p += 1
        if not (b & 0x08) or (b >> 4) == 15 or (b & 7) in (5, 6, 7):
            return None
        n = b & 7
        if p + n > len(data) or n == 0:
            return None
        out.append((b >> 4, data[p:p + n]))
        p += n
    return out


def dcc_effect(data, level):
    cls = classify(data, level)
    hit = b"\x11" in data and b"\x01" in data
    if not cls["judged"]:
        return ("maybe",) if hit else ("none",)
    if cls["service"] != 17:
        return ("none",)
    # service data: everything after the 4 header octets of the APDU, which ends the frame
    apdu_at = None
    for p in range(len(data) - 3):
        if data[p + 2] == cls["invoke"] and data[p + 3] == 17 and (data[p] >> 4) == 0:
            apdu_at = p
            break
    if apdu_at is None:
        return ("maybe",) if hit else ("none",)
    body = data[apdu_at + 4:]
    tags = _ctx_tags(body)
    if tags is None or [n for n, _ in tags] != sorted(set(n for n, _ in tags)) or any(n > 2 for n, _ in tags) \
            or any(len(c) > 4 for n, c in tags if n < 2):
        return ("maybe",) if b"\x01" in body else ("none",)
    fields = dict(tags)
    if 1 not in fields or int.from_bytes(fields[1], "big") != 1:
        return ("none",)
    return ("disable", int.from_bytes(fields.get(0, b"\x00"), "big"))


def possible_invoke(data, level):
    """For a frame that is NOT judged (reserved bits, odd header ...): the invoke ID a lenient device might read out of it
    if it took it for a confirmed request, or None.  Used only to widen what a device may answer (a device that answers
    such a frame uses up none of the replies owed to the well-framed requests)."""
    if level != "lan":
        if len(data) < 4 or data[0] != 0x81:
            return None
        data = data[4:]
    if len(data) < 2:
        return None
    ctl = data[1]
    p = 2
    if ctl & 0x20:
        if len(data) < p + 3:
            return None
        p += 3 + data[p + 2]
    if ctl & 0x08:
        if len(data) < p + 3:
            return None
        p += 3 + data[p + 2]
    if ctl & 0x20:
        p += 1
    apdu = data[p:]
    if len(apdu) >= 3 and (apdu[0] >> 4) == 0:
        return apdu[2]
    return None
