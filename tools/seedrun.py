#!/usr/bin/env python3
"""Qualify and run seeded (deliberately property-breaking) changes against the checks.

    tools/seedrun.py qualify <seed dir>         suite green with the patch, demo fails with / passes without
    tools/seedrun.py check <seed dir> [tier]    run the property's check against a scratch copy with the patch applied
    tools/seedrun.py all [tier]                 check every seed under /verif/seeded, print a table

Everything happens in a scratch copy of /repo's working tree under /tmp (removed afterwards); /repo is never touched.
"""
import json
import os
import shutil
import subprocess
import sys
import tempfile

VERIF = os.path.dirname(os.path.dirname(os.path.abspath(__file__)))
REPO = "/repo"
PY = "/venv/bin/python"


def scratch(patch=None):
    d = tempfile.mkdtemp(prefix="bv_seed_", dir="/tmp")
    for sub in ("py34", "tests"):
        shutil.copytree(os.path.join(REPO, sub), os.path.join(d, sub), ignore=shutil.ignore_patterns("__pycache__"))
    if patch:
        r = subprocess.run(["git", "apply", "--unsafe-paths", "--directory", d, patch], capture_output=True, text=True, cwd=d)
        if r.returncode != 0:
            r = subprocess.run(["patch", "-p1", "-d", d, "-i", patch], capture_output=True, text=True)
            if r.returncode != 0:
                shutil.rmtree(d)
                raise SystemExit("patch does not apply: %s\n%s" % (patch, r.stdout + r.stderr))
    return d


def env_for(tree):
    e = dict(os.environ)
    e.update(PYTHONPATH=os.path.join(tree, "py34"), PYTHONDONTWRITEBYTECODE="1", PYTHONHASHSEED="0", TZ="UTC")
    return e


def suite(tree):
    r = subprocess.run([PY, "-m", "pytest", "-q", "-p", "no:cacheprovider", "-x", "tests"], cwd=tree, env=env_for(tree),
                       capture_output=True, text=True)
    tail = (r.stdout.strip().splitlines() or [""])[-1]
    return r.returncode == 0, tail


def demo(tree, seed_dir):
    demos = [f for f in os.listdir(seed_dir) if f.startswith("demo") and f.endswith(".py")]
    if not demos:
        return None, "no demo"
    r = subprocess.run([PY, os.path.join(seed_dir, demos[0])], cwd=tree, env=env_for(tree), capture_output=True, text=True, timeout=600)
    return r.returncode == 0, (r.stdout + r.stderr).strip().splitlines()[-1:] or [""]


def qualify(seed_dir):
    seed_dir = os.path.abspath(seed_dir)
    patch = os.path.join(seed_dir, "patch.diff")
    t = scratch(patch)
    try:
        ok_suite, tail = suite(t)
        ok_demo_mut, out_mut = demo(t, seed_dir)
    finally:
        shutil.rmtree(t)
    t = scratch(None)
    try:
        ok_demo_clean, out_clean = demo(t, seed_dir)
    finally:
        shutil.rmtree(t)
    res = {"suite_green_with_change": ok_suite, "suite_tail": tail, "demo_passes_with_change": ok_demo_mut,
           "demo_passes_without_change": ok_demo_clean, "demo_out_with_change": out_mut, "demo_out_without": out_clean}
    res["qualified"] = bool(ok_suite and ok_demo_mut is False and ok_demo_clean is True)
    return res


def check(seed_dir, tier="quick", props=None):
    seed_dir = os.path.abspath(seed_dir)
    meta = json.load(open(os.path.join(seed_dir, "meta.json")))
    props = props or [meta["property"]]
    t = scratch(os.path.join(seed_dir, "patch.diff"))
    out = {}
    try:
        for p in props:
            e = dict(os.environ)
            e["BV_REPO"] = t
            e["BV_EVIDENCE_DIR"] = os.path.join(t, "evidence")
            r = subprocess.run([os.path.join(VERIF, "check"), p, "--tier", tier], capture_output=True, text=True, env=e, cwd=VERIF)
            viol = [l for l in r.stdout.splitlines() if l.startswith("VIOLATION")]
            out[p] = {"exit": r.returncode, "violations": len(viol),
                      "first": (viol[0][:300] if viol else ""), "summary": (r.stdout.strip().splitlines() or [""])[-1][:300]}
    finally:
        shutil.rmtree(t)
    return out


def main():
    cmd = sys.argv[1]
    if cmd == "qualify":
        print(json.dumps(qualify(sys.argv[2]), indent=1))
    elif cmd == "check":
        tier = sys.argv[3] if len(sys.argv) > 3 else "quick"
        props = sys.argv[4].split(",") if len(sys.argv) > 4 else None
        print(json.dumps(check(sys.argv[2], tier, props), indent=1))
    elif cmd == "all":
        tier = sys.argv[2] if len(sys.argv) > 2 else "quick"
        root = os.path.join(VERIF, "seeded")
        for name in sorted(os.listdir(root)):
            d = os.path.join(root, name)
            if not os.path.exists(os.path.join(d, "meta.json")):
                continue
            res = check(d, tier)
            for p, r in res.items():
                print("%-28s %s exit=%d violations=%d %s" % (name, p, r["exit"], r["violations"], r["first"][:140]))


if __name__ == "__main__":
    main()
