#!/usr/bin/env python3
"""Write the adversary prompts of one wave: tools/mkprompts.py <wave> [CNN ...]  -> /tmp/mut<wave>_prompt_cNN.txt
A prompt holds the property text and the one-line descriptions of the changes already tried (so that a new wave looks
elsewhere); nothing about /verif's checks."""
import json
import os
import sys

sys.path.insert(0, os.path.dirname(os.path.abspath(__file__)))
import seedmeta

VERIF = os.path.dirname(os.path.dirname(os.path.abspath(__file__)))
TEMPLATE = open(os.path.join(VERIF, "tools", "adversary_prompt.txt")).read()


def main():
    wave = sys.argv[1]
    only = set(sys.argv[2:])
    for line in open(os.path.join(VERIF, "properties.jsonl")):
        p = json.loads(line)
        pid = p["id"]
        if only and pid not in only:
            continue
        wt = "/tmp/wt%s_%s" % (wave, pid.lower())
        tried = [info[0] for name, info in sorted(seedmeta.INFO.items()) if name.startswith(pid + "-")]
        mech = "; ".join("%s (%s)" % (m["name"], m["where"]) for m in p["anchors"].get("mechanism", []))
        text = TEMPLATE.format(wt=wt, pid=pid, title=p["title"], statement=p["statement"], quant=p["quantifier"]["text"],
                               files=", ".join(p["anchors"]["files"]), mech=mech,
                               tried="\n".join("  - " + t for t in tried))
        out = "/tmp/mut%s_prompt_%s.txt" % (wave, pid.lower())
        open(out, "w").write(text)
        print(out, len(tried), "tried")


if __name__ == "__main__":
    main()
