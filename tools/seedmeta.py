#!/usr/bin/env python3
"""Fill seeded/<id>/meta.json (what the change is, what it needs to manifest, what was run, which check catches it)
and print the markdown table for DESIGN.md.   tools/seedmeta.py [run]   (run: re-run every check first)"""
import json
import os
import sys

sys.path.insert(0, os.path.dirname(os.path.abspath(__file__)))
import seedrun

ROOT = os.path.join(seedrun.VERIF, "seeded")
INFO = {
 "C01-a-length-escape-254": ("Tag.encode: one-octet length escape used for a content of exactly 254 octets", "a primitive whose content is exactly 254 octets", "caught as built"),
 "C01-b-objid-type-masked": ("ObjectIdentifier.get_long masks the type to 10 bits instead of overflowing", "numeric object type outside 0..1023 (cooperates with the missing range check in set_tuple)", "caught as built"),
 "C03-a-castout-consumes-tags": ("Any.cast_out pops the tags out of the Any's own storage", "decode a PDU with a non-empty constructed Any, cast_out once, then cast_out again or re-encode", "caught as built"),
 "C03-b-namevalue-bare-date-swallows-next": ("NameValue.decode tries DateTime first and loses the tag after a bare Date", "a NameValue holding a Date alone, nested in a list/array, decode direction", "caught as built"),
 "C04-a-nak-refills-retries": ("ClientSSM.segmented_request resets segmentRetryCount on every SegmentACK, also on negative ones", "segmented request, window >= 2, first segment of a later window lost on every retransmission, retries >= 1", "missed at first (finite fault budgets always terminate); caught after E2 got lasso detection (the timeless state recurs) and the r=1 closures moved into quick"),
 "C04-b-iocb-reentrancy": ("IOQController.complete_io frees the controller before the callbacks run", "a completion callback that synchronously submits the next request to the same peer", "missed at first; caught after the IOCB application got a callback-chaining mode (iocb-chain configurations)"),
 "C05-a-repeated-seq0-restarts-reassembly": ("ClientSSM.segmented_confirmation restarts reassembly on a repeated sequence number 0", "response of more than 257 segments and one duplicate / lost ack exactly at the modulo-256 wrap", "missed at first (only fault-free long transfers); caught after single faults were placed at every decision point next to the wrap of 260-segment transfers"),
 "C05-b-server-nak-client-bit": ("ServerSSM negative SegmentACK carries server=0", "segmented request and the loss of any non-final SegmentACK", "caught as built"),
 "C07-a-maxsegs-ceil-log2": ("encode_max_segments_accepted computed as ceil(log2)", "a max-segments capability that is not a power of two", "caught as built"),
 "C07-b-maxresp-3bit-mask": ("APCI.decode masks max-response with 0x07", "a Confirmed-Request carrying max-APDU code 8..15", "caught as built"),
 "C10-a-lookup-sentinel": ("server transaction lookup: for/else replaced by a loop variable used as sentinel", "a lone first segment lingering (4 x T_seg) while a valid request with another invoke ID arrives", "missed at first; caught after the garbage pool of the history part kept lingering-transaction frames per invoke ID and the valid request got its own invoke ID"),
 "C10-b-reserved-bit-maxsegs": ("APCI.decode lets the reserved bit leak into max-segments (index error in ServerSSM.idle)", "second header octet with bit 7 set and a valid max-APDU code", "caught as built"),
 "C10-c-return-path-learned-once": ("NSAP.process_npdu learns the return path of a source network only once", "a corrupted routed frame from a non-router station before valid routed traffic of that network", "missed at first; caught after a routed probe from a second station was added to the health oracle"),
 "C11-a-id-zero-falsy": ("invoke ID 0 never counted as in use (truthiness test)", "a transaction with ID 0 alive when the counter wraps or the application picks 0 again", "caught as built"),
 "C11-b-unmatched-abort-hits-last": ("unmatched Abort / SegmentACK applied to the last live transaction (loop variable as sentinel)", "a stray abort or segment ack while another transaction of the same role is alive", "caught as built"),
 "C12-a-sa-from-cache": ("ServerSSM.idle reads 'segmented response accepted' from the cached device record", "record says the client can receive segments, later request says SA=0, response too long for one APDU", "missed at first (record always agreed with the request); caught after stale peer records were added"),
 "C12-b-blind-retry": ("retry of an unsegmented request re-sends the old APDU without re-evaluating the peer's capabilities", "request lost, peer re-announces a smaller max-APDU inside the retry window", "missed at first (fault-free sweep); caught after re-announcement became an explorer event in an E1 part (drop + re-announce)"),
 "C13-a-fdt-ageing-skips-next": ("BIPBBMD.process_task removes entries while iterating: the entry behind a removed one is not aged in that tick", "two or more foreign devices at one BBMD, the earlier table entry expires first", "missed at first (the extra seconds stay inside the standard's 30 s grace); caught after the grace was required to be the same constant for every device of a table"),
 "C13-b-expiry-tracker-not-pushed-back": ("BIPForeign does not push its own TTL+30 s tracker back on renewal acks", "run longer than TTL + 30 s with all renewals acknowledged, TTL not dividing 30", "missed at first (TTL 1..3 in the history part, renewals lost in the sweep); caught after the steady-state sweep with acknowledged renewals was added"),
 "C14-a-reinstall-keeps-rank": ("TaskManager.install_task rewrites the heap entry of a pending task in place, keeping its old tie-break number", "A pending, B installed at T, A re-installed at T", "caught as built"),
 "C14-b-suspend-half-sift": ("suspend_task moves the tail entry into the hole and sifts in one direction only", "at least 6-7 pending entries in a particular shape", "missed at first (at most 4 tasks); caught after the heap-shape part (every order of 5..8 due times x suspensions) was added"),
 "C17-a-minonoff-timer-not-restarted": ("MinOnOffTask does not re-arm when the state flips during a hold", "command at priority 1..5 flips the value during a minimum on/off hold and is relinquished", "caught as built"),
 "C17-b-shared-priority-array": ("priority array becomes a shared class-level default", "a second object of the same class in the same process", "first reported as a harness error (replay diverged); now a violation: a fresh object must be in the initial state"),
 "C18-a-net-zero-falsy": ("Address parser tests the converted network number for truth: network 0 is 'no network'", "a text spelling with network number exactly 0", "caught as built"),
 "C18-b-printer-truncates-long-ip-like": ("Address.__str__ prints any octet string whose octets 5-6 look like a BACnet/IP port as ip:port", "octet string of 7+ octets with 0xBAC0..0xBACF at offset 4", "caught as built"),
 "C19-a-router-filed-into-detached-dict": ("update_router_info files the new router into a per-network table that the displacement step just deleted", "the only router of an attached network loses all destinations to a router not yet known there", "caught as built"),
 "C19-b-renumber-after-update": ("Network-Number-Is: cache renumbering runs after adapterNet was already overwritten", "a router learned on an adapter before that adapter learns its network number", "caught as built"),
 "C02-a-get-long-short-guard": ("PDUData.get_long keeps get_short's guard (len < 2): struct.error escapes", "a tag with the four-octet length escape and exactly 2 or 3 octets left (input of 4+ octets)", "caught as built (truncations of long encodings)"),
 "C02-b-get-context-level-not-reset": ("TagList.get_context does not reset the nesting level between sibling groups", "a complete top-level group before the group of interest, which nests or lacks its closing tag", "caught as built"),
 "C08-a-hop-zero-written-255": ("NPCI.encode writes hop count `or 255`", "a header with a destination and hop count exactly 0", "caught as built"),
 "C08-b-router-busy-list-leaks": ("Router-Busy / Router-Available decode no longer resets the network list (mutable default shared)", "two decodes of the same type in one process, the earlier non-empty", "caught as built"),
 "C09-a-fdt-ack-shared-list": ("ReadForeignDeviceTableAck.decode clears its table in place: all default-constructed acks share one list", "decode an ack, keep it, decode another (or build a default ack afterwards)", "missed at first (every decode judged at once, alone); caught after the decode-independence history part was added (a first version of that part encoded the default message one layer short - harness mistake, corrected before commit)"),
 "C09-b-zero-mask-all-ones": ("BDT mask `or 0xFFFFFFFF`: a /0 mask goes out as all ones", "a distribution table entry with mask 0.0.0.0", "caught as built"),
 "C16-a-burst-freezes-baseline": ("DetectionMonitor.property_change returns before updating the algorithm's copy when already triggered", "analog object, two writes in one instant, then a write whose verdict differs between true and stale baseline", "caught as built"),
 "C16-b-indefinite-renewal-keeps-old-timer": ("renew_subscription no longer suspends the expiry task before re-arming", "finite subscription renewed as indefinite, clock passes the original expiry", "caught as built"),
 "C06-a-stale-snet-after-renumber": ("outgoing adapter chosen through RouterInfo.snet, which update_source_network never re-keys", "station bound without a network number learns a route, then receives Network-Number-Is, then sends to that network", "missed by C06 at first (its stations never learned their number after a route; C19's wire part caught it as `probe:raises-KeyError`); caught by C06 itself after the 'nwarm' table mode was added (routers announce Network-Number-Is after the stations learned their routes)"),
 "C06-b-iam-router-relay-only-new": ("a router relays only I-Am-Router-To-Network entries new to its cache", "two routers on the path and a routed frame from the destination network crossing the first router while discovery is under way", "caught as built (delivery-order deviations)"),
 "C15-a-falsy-command-stored-as-null": ("_Commando.WriteProperty tests `not value`: a commanded 0 / empty value is stored as Null", "commandable object, falsy value, another slot active or priorityArray read back", "not caught by C15 (commandable objects are left to C17 there); caught by C17 (`slots:command-without-priority-not-at-16`, value 0.0 is in its alphabet)"),
 "C15-b-rpm-selectors-skip-computed": ("RPM selector expansion skips properties whose stored value is None (computed properties)", "selector RPM to an object with a computed property (device object)", "caught as built"),
 "C20-a-last-day-wrong-century-february": ("last-day-of-month helper called with a doubly offset year in match_date", "the 'last day' pattern in February 2000 / 2100", "caught as built (2000 and 2100 are among the quick tier's seven years)"),
 "C20-b-exception-only-sleeps": ("eval() returns 24:00 as next transition for schedules without weekly schedule", "exception-only schedule with an exception entry still to come that day", "caught as built (next-transition soundness)"),
}

# seeded changes whose own property's check is silent but a sibling property's check decides them
DETECTED_BY = {"C15-a-falsy-command-stored-as-null": "C17"}


def main():
    rerun = len(sys.argv) > 1 and sys.argv[1] == "run"
    rows = []
    for name in sorted(os.listdir(ROOT)):
        d = os.path.join(ROOT, name)
        mp = os.path.join(d, "meta.json")
        if not os.path.exists(mp):
            continue
        meta = json.load(open(mp))
        what, needs, story = INFO.get(name, (meta.get("what", ""), meta.get("needs", ""), meta.get("history", "")))
        meta.update({"what": what, "needs_to_manifest": needs, "history": story})
        if rerun or "check_result" not in meta:
            q = seedrun.qualify(d)
            p = DETECTED_BY.get(name, meta["property"])
            r = seedrun.check(d, "quick", [p])
            meta["checked_with_property"] = p
            meta["qualification"] = {k: q[k] for k in ("qualified", "suite_green_with_change", "demo_passes_with_change", "demo_passes_without_change")}
            meta["check_result"] = {"command": "./check %s --tier quick (against a scratch copy of /repo with patch.diff applied)" % p,
                                    "exit": r[p]["exit"], "violations": r[p]["violations"], "first_violation": r[p]["first"][:400]}
            meta["ran"] = ["tools/seedrun.py qualify seeded/%s" % name, "tools/seedrun.py check seeded/%s quick" % name]
        json.dump(meta, open(mp, "w"), indent=1)
        cr = meta["check_result"]
        sig = ""
        if "signature=" in cr["first_violation"]:
            sig = cr["first_violation"].split("signature=")[1].split(" count=")[0][:90]
        by = meta.get("checked_with_property", meta["property"])
        rows.append("| %s | %s | %s | %s | %s |" % (name, what, needs, "%s: exit %d, `%s`" % (by, cr["exit"], sig) if cr["exit"] == 1 else "**not caught** (exit %d)" % cr["exit"], story))
    print("| seeded change | what was changed | what it needs to manifest | quick check of its property | history |")
    print("|---|---|---|---|---|")
    print("\n".join(rows))


if __name__ == "__main__":
    main()
