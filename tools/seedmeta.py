#!/usr/bin/env python3
"""Fill seeded/<id>/meta.json (what the change is, what it needs to manifest, what was run, which check catches it)
and print the markdown table for DESIGN.md.   tools/seedmeta.py [run]   (run: re-run every check first)"""
import json
import os
import sys

sys.path.insert(0, os.path.dirname(os.path.abspath(__file__)))
import seedrun

ROOT = os.path.join(seedrun.VERIF, "seeded")
INFO = {
 "C01-a-length-escape-254": ("Tag.encode: one-octet length escape used for a content of exactly 254 octets", "a primitive whose content is exactly 254 octets", "caught as built"),
 "C01-b-objid-type-masked": ("ObjectIdentifier.get_long masks the type to 10 bits instead of overflowing", "numeric object type outside 0..1023 (cooperates with the missing range check in set_tuple)", "caught as built"),
 "C03-a-castout-consumes-tags": ("Any.cast_out pops the tags out of the Any's own storage", "decode a PDU with a non-empty constructed Any, cast_out once, then cast_out again or re-encode", "caught as built"),
 "C03-b-namevalue-bare-date-swallows-next": ("NameValue.decode tries DateTime first and loses the tag after a bare Date", "a NameValue holding a Date alone, nested in a list/array, decode direction", "caught as built"),
 "C04-a-nak-refills-retries": ("ClientSSM.segmented_request resets segmentRetryCount on every SegmentACK, also on negative ones", "segmented request, window >= 2, first segment of a later window lost on every retransmission, retries >= 1", "missed at first (finite fault budgets always terminate); caught after E2 got lasso detection (the timeless state recurs) and the r=1 closures moved into quick"),
 "C04-b-iocb-reentrancy": ("IOQController.complete_io frees the controller before the callbacks run", "a completion callback that synchronously submits the next request to the same peer", "missed at first; caught after the IOCB application got a callback-chaining mode (iocb-chain configurations)"),
 "C05-a-repeated-seq0-restarts-reassembly": ("ClientSSM.segmented_confirmation restarts reassembly on a repeated sequence number 0", "response of more than 257 segments and one duplicate / lost ack exactly at the modulo-256 wrap", "missed at first (only fault-free long transfers); caught after single faults were placed at every decision point next to the wrap of 260-segment transfers"),
 "C05-b-server-nak-client-bit": ("ServerSSM negative SegmentACK carries server=0", "segmented request and the loss of any non-final SegmentACK", "caught as built"),
 "C07-a-maxsegs-ceil-log2": ("encode_max_segments_accepted computed as ceil(log2)", "a max-segments capability that is not a power of two", "caught as built"),
 "C07-b-maxresp-3bit-mask": ("APCI.decode masks max-response with 0x07", "a Confirmed-Request carrying max-APDU code 8..15", "caught as built"),
 "C10-a-lookup-sentinel": ("server transaction lookup: for/else replaced by a loop variable used as sentinel", "a lone first segment lingering (4 x T_seg) while a valid request with another invoke ID arrives", "missed at first; caught after the garbage pool of the history part kept lingering-transaction frames per invoke ID and the valid request got its own invoke ID"),
 "C10-b-reserved-bit-maxsegs": ("APCI.decode lets the reserved bit leak into max-segments (index error in ServerSSM.idle)", "second header octet with bit 7 set and a valid max-APDU code", "caught as built"),
 "C10-c-return-path-learned-once": ("NSAP.process_npdu learns the return path of a source network only once", "a corrupted routed frame from a non-router station before valid routed traffic of that network", "missed at first; caught after a routed probe from a second station was added to the health oracle"),
 "C11-a-id-zero-falsy": ("invoke ID 0 never counted as in use (truthiness test)", "a transaction with ID 0 alive when the counter wraps or the application picks 0 again", "caught as built"),
 "C11-b-unmatched-abort-hits-last": ("unmatched Abort / SegmentACK applied to the last live transaction (loop variable as sentinel)", "a stray abort or segment ack while another transaction of the same role is alive", "caught as built"),
 "C12-a-sa-from-cache": ("ServerSSM.idle reads 'segmented response accepted' from the cached device record", "record says the client can receive segments, later request says SA=0, response too long for one APDU", "missed at first (record always agreed with the request); caught after stale peer records were added"),
 "C12-b-blind-retry": ("retry of an unsegmented request re-sends the old APDU without re-evaluating the peer's capabilities", "request lost, peer re-announces a smaller max-APDU inside the retry window", "missed at first (fault-free sweep); caught after re-announcement became an explorer event in an E1 part (drop + re-announce)"),
 "C13-a-fdt-ageing-skips-next": ("BIPBBMD.process_task removes entries while iterating: the entry behind a removed one is not aged in that tick", "two or more foreign devices at one BBMD, the earlier table entry expires first", "missed at first (the extra seconds stay inside the standard's 30 s grace); caught after the grace was required to be the same constant for every device of a table"),
 "C13-b-expiry-tracker-not-pushed-back": ("BIPForeign does not push its own TTL+30 s tracker back on renewal acks", "run longer than TTL + 30 s with all renewals acknowledged, TTL not dividing 30", "missed at first (TTL 1..3 in the history part, renewals lost in the sweep); caught after the steady-state sweep with acknowledged renewals was added"),
 "C14-a-reinstall-keeps-rank": ("TaskManager.install_task rewrites the heap entry of a pending task in place, keeping its old tie-break number", "A pending, B installed at T, A re-installed at T", "caught as built"),
 "C14-b-suspend-half-sift": ("suspend_task moves the tail entry into the hole and sifts in one direction only", "at least 6-7 pending entries in a particular shape", "missed at first (at most 4 tasks); caught after the heap-shape part (every order of 5..8 due times x suspensions) was added"),
 "C17-a-minonoff-timer-not-restarted": ("MinOnOffTask does not re-arm when the state flips during a hold", "command at priority 1..5 flips the value during a minimum on/off hold and is relinquished", "caught as built"),
 "C17-b-shared-priority-array": ("priority array becomes a shared class-level default", "a second object of the same class in the same process", "first reported as a harness error (replay diverged); now a violation: a fresh object must be in the initial state"),
 "C18-a-net-zero-falsy": ("Address parser tests the converted network number for truth: network 0 is 'no network'", "a text spelling with network number exactly 0", "caught as built"),
 "C18-b-printer-truncates-long-ip-like": ("Address.__str__ prints any octet string whose octets 5-6 look like a BACnet/IP port as ip:port", "octet string of 7+ octets with 0xBAC0..0xBACF at offset 4", "caught as built"),
 "C19-a-router-filed-into-detached-dict": ("update_router_info files the new router into a per-network table that the displacement step just deleted", "the only router of an attached network loses all destinations to a router not yet known there", "caught as built"),
 "C19-b-renumber-after-update": ("Network-Number-Is: cache renumbering runs after adapterNet was already overwritten", "a router learned on an adapter before that adapter learns its network number", "caught as built"),
 "C02-a-get-long-short-guard": ("PDUData.get_long keeps get_short's guard (len < 2): struct.error escapes", "a tag with the four-octet length escape and exactly 2 or 3 octets left (input of 4+ octets)", "caught as built (truncations of long encodings)"),
 "C02-b-get-context-level-not-reset": ("TagList.get_context does not reset the nesting level between sibling groups", "a complete top-level group before the group of interest, which nests or lacks its closing tag", "caught as built"),
 "C08-a-hop-zero-written-255": ("NPCI.encode writes hop count `or 255`", "a header with a destination and hop count exactly 0", "caught as built"),
 "C08-b-router-busy-list-leaks": ("Router-Busy / Router-Available decode no longer resets the network list (mutable default shared)", "two decodes of the same type in one process, the earlier non-empty", "caught as built"),
 "C09-a-fdt-ack-shared-list": ("ReadForeignDeviceTableAck.decode clears its table in place: all default-constructed acks share one list", "decode an ack, keep it, decode another (or build a default ack afterwards)", "missed at first (every decode judged at once, alone); caught after the decode-independence history part was added (a first version of that part encoded the default message one layer short - harness mistake, corrected before commit)"),
 "C09-b-zero-mask-all-ones": ("BDT mask `or 0xFFFFFFFF`: a /0 mask goes out as all ones", "a distribution table entry with mask 0.0.0.0", "caught as built"),
 "C16-a-burst-freezes-baseline": ("DetectionMonitor.property_change returns before updating the algorithm's copy when already triggered", "analog object, two writes in one instant, then a write whose verdict differs between true and stale baseline", "caught as built"),
 "C16-b-indefinite-renewal-keeps-old-timer": ("renew_subscription no longer suspends the expiry task before re-arming", "finite subscription renewed as indefinite, clock passes the original expiry", "caught as built"),
 "C06-a-stale-snet-after-renumber": ("outgoing adapter chosen through RouterInfo.snet, which update_source_network never re-keys", "station bound without a network number learns a route, then receives Network-Number-Is, then sends to that network", "missed by C06 at first (its stations never learned their number after a route; C19's wire part caught it as `probe:raises-KeyError`); caught by C06 itself after the 'nwarm' table mode was added (routers announce Network-Number-Is after the stations learned their routes)"),
 "C06-b-iam-router-relay-only-new": ("a router relays only I-Am-Router-To-Network entries new to its cache", "two routers on the path and a routed frame from the destination network crossing the first router while discovery is under way", "caught as built (delivery-order deviations)"),
 "C15-a-falsy-command-stored-as-null": ("_Commando.WriteProperty tests `not value`: a commanded 0 / empty value is stored as Null", "commandable object, falsy value, another slot active or priorityArray read back", "missed by C15 at first (commandable objects were left to C17, which caught it as `slots:command-without-priority-not-at-16`); caught by C15 itself after the commandable part was added (two objects of a class, present value and array element read back over the wire after every acknowledged write)"),
 "C15-b-rpm-selectors-skip-computed": ("RPM selector expansion skips properties whose stored value is None (computed properties)", "selector RPM to an object with a computed property (device object)", "caught as built"),
 "C20-a-last-day-wrong-century-february": ("last-day-of-month helper called with a doubly offset year in match_date", "the 'last day' pattern in February 2000 / 2100", "caught as built (2000 and 2100 are among the quick tier's seven years)"),
 "C20-b-exception-only-sleeps": ("eval() returns 24:00 as next transition for schedules without weekly schedule", "exception-only schedule with an exception entry still to come that day", "caught as built (next-transition soundness)"),
 "C01-c-enumerated-shared-encode-cache": ("Enumerated.encode memoises octets in a dict shared by all enumeration classes, keyed by name", "two enumeration classes sharing a name with different numbers both encode it in one process", "caught as built"),
 "C01-d-decode-extensions-swapped": ("Tag.decode reads the length escape before the extended tag-number octet", "context number >= 15 together with content >= 5 octets", "caught as built"),
 "C02-c-decode-escape-order": ("Tag.decode: extended tag number fetched after the length escape", "a tag needing both escapes at once (number >= 15, length >= 5)", "caught as built"),
 "C02-d-four-octet-length-one-early": ("Tag.encode switches to the four-octet length at exactly 65535", "a data length of exactly 65535", "caught as built"),
 "C03-c-apcisequence-keeps-taglist": ("APCISequence keeps its tag list between encodings", "encode the same PDU object more than once", "missed at first (every object encoded once); caught after 'the same objects encoded once more' was added"),
 "C03-d-empty-list-guard-merged": ("Sequence.decode: merged branches lose the 'untagged list' guard", "record-access file services with zero records", "caught as built"),
 "C04-c-zero-retries-becomes-default": ("`getattr(...) or default`: a configured retry count of 0 becomes 3", "retries = 0 with a lost frame or a silent peer", "missed at first (time bound too generous, exactly one outcome still delivered); caught after the bound became exact for unsegmented transactions and request transmissions were counted against retries + 1"),
 "C04-d-segment-retry-no-timer": ("segment retry path calls restart_timer, which now returns early when no timer is scheduled", "segmented request and two consecutive losses in the segment phase", "caught as built"),
 "C05-c-final-ack-without-sentall": ("final-ack test without the sentAllSegments guard (8-bit comparison)", "fault-free transfer of more than 256 segments with (count-1) mod 256 a multiple of the window", "missed at first (the '257-segment' transfers really had 258 segments: payload overhead of long strings miscounted); caught after exact segment counts x windows were enumerated"),
 "C05-d-retry-keeps-stale-window-base": ("whole-request retry no longer resets initialSequenceNumber", "segmented request fully acked, then exactly the server's answer frame lost, request of >= window+2 segments", "caught as built"),
 "C06-c-whois-answered-through-asking-net": ("Who-Is-Router answered with a path leading back through the asking network (depends on port bind order)", "two routers on a shared network, destination two hops away, cold station", "caught as built (seed rotates the port binding order)"),
 "C06-d-last-leg-ignores-hop-zero": ("hop-count check moved off the directly connected last leg", "packet reaching the final router with hop count exactly 0", "caught as built (crafted initial hop counts)"),
 "C07-c-segack-signed-octets": ("SegmentAck octets unpacked as signed", "invoke ID / sequence number / window >= 128", "caught as built"),
 "C07-d-maxsegs-dropped-when-sa-clear": ("max-segments nibble only packed when segmented-response-accepted is set", "SA = 0 with max-segments code 1..7", "caught as built"),
 "C08-c-zero-length-source-accepted": ("source sanity check tests addrLen == 0 on a RemoteBroadcast (None)", "hand-made frame with SLEN = 0", "caught as built"),
 "C08-d-vendor-id-dropped-at-0x80": ("vendor-ID condition `> 0x80` instead of `>= 0x80` on both sides", "message type exactly X'80'", "caught as built"),
 "C09-c-header-before-length-refresh": ("AnnexJCodec.indication writes the length before the message recomputes it", "message object filled or changed after construction", "caught as built (put_data hand-over form)"),
 "C09-d-decoded-addresses-cached": ("decoded B/IP addresses come from an lru_cache and are shared; BDT decoders set addrMask on them", "same address with two masks in one table or across frames", "caught as built"),
 "C10-d-segment-timer-armed-after-resend": ("segment retry timer armed after the retransmission (which may raise)", "corrupted SegmentACK naming a segment past the end of a two-segment response, then the timer, then the same invoke ID again", "missed at first (device never in the middle of a transaction when garbage arrived); caught after the dialogue part was added"),
 "C10-e-deferred-per-call-guard-removed": ("per-call guard around deferred functions removed again (reverts fix 4a46b7a)", "garbage and a valid request in one deferred batch (as UDPDirector hands them over)", "missed by C10 at first (vlan delivers through tasks; C14 catches it); caught after the deferred-batch delivery mode was added"),
 "C11-c-free-id-search-not-circular": ("free-ID search as one pass over sorted busy IDs (not circular)", "IDs 255 and 0 both live for one peer when the counter comes round", "caught as built (allocation sweep)"),
 "C11-d-ack-dispatch-keeps-walking": ("ack dispatch loop calls the transaction without break", "application re-uses its chosen ID from inside the confirmation while a later-started request is outstanding", "missed at first (requests only at explorer-chosen points); caught after callback-submitted requests and 'one reply frame completes at most one request' were added"),
 "C12-c-readdressed-device-hidden": ("DeviceInfoCache re-keying with setdefault: a re-addressed device hides behind the previous record of that address", "device A at station 10, device B at 20, B re-announces from 10, request to 10", "missed at first (one peer only); caught after the identity-history part was added (its first reference forgot that a device that moved away leaves its old address unknown - corrected, see section 6)"),
 "C12-d-response-window-fixed-by-first-ack": ("ServerSSM takes the window only from the first SegmentACK", "client lowers the window in a later ack", "missed at first (real clients keep their window); caught after the scripted-client window part was added"),
 "C13-c-onehop-forward-skips-foreign": ("BBMD returns early for a Forwarded-NPDU that arrived by directed broadcast", "one-hop peers plus a foreign device at the receiving BBMD", "caught as built"),
 "C13-d-renewal-without-grace": ("renewal of an existing FDT entry sets remaining = TTL without grace", "registration instant off the whole second", "caught as built (start phases .25/.75)"),
 "C14-c-scheduled-flag-cleared-after-handler": ("isScheduled cleared after the handler returns", "a task that re-arms itself from inside its own handler", "missed at first (callbacks only re-installed other tasks); caught after self-re-arming variants were added"),
 "C14-d-deferred-remainder-requeued-behind": ("after a raising deferred function the remainder is re-queued behind functions deferred meanwhile", "raising member + nested deferral + later member in one batch", "caught as built"),
 "C15-c-shared-priority-array-default": ("priority array as shared property default (same idea as C17-b, other site)", "two objects of one commandable class", "missed by C15 at first (C17 caught it as `init:fresh-object-not-in-initial-state`); caught by C15 itself after the commandable part was added: a write to one object changes the array element of the other"),
 "C15-d-rpm-wraps-list-valued-elements": ("RPM helper loses the 'no array index' term (partial revert of fix 2f3199c)", "RPM with an array index on an array of bit strings", "caught as built"),
 "C16-c-baseline-ignores-targeted-notification": ("increment baseline only follows broadcast notifications", "sub-increment drift, then a renewal / second subscriber, then a write between the two baselines", "caught as built"),
 "C16-d-unmatched-cancel-tears-down-detection": ("a cancel that matches nothing deletes the object's shared detection", "repeated or late cancel while another subscriber is live", "caught as built"),
 "C17-c-commanding-slot-cache-not-cleared": ("cached 'slot in command' not reset when the array runs empty", "command at p, empty the array, command at q > p", "caught as built"),
 "C17-d-priority-zero-becomes-16": ("`priority or 16`", "priority 0", "caught as built"),
 "C18-c-ip-octets-not-range-checked": ("dotted quad folded by hand, only the total range-checked", "an octet above 255 in position 2-4", "caught as built"),
 "C18-d-bytearray-not-copied": ("raw-octets branch keeps the caller's bytearray", "Address(bytearray) then hash() or buffer reuse", "first seen as a crash of the check (hash() raised inside it); now `hash:raises` / `denotes:wrong-octets`, and any exception escaping into a check is reported as `check-crashed` with its traceback"),
 "C19-c-remove-helper-trusts-stale-snet": ("shared removal helper keys on RouterInfo.snet, which renumbering never updates", "learn, renumber, then competing announcement or forget", "caught as built"),
 "C19-d-sadr-learning-memo": ("per-adapter memo skips SADR learning when the pair equals the last one", "same (router, network) sighting twice with an announcement or forget in between", "missed at first: the canonical state of the wire part was hand-picked and merged states that differ in the new memo field, so the BFS reached the middle state by a shorter history; caught after the state got an over-approximating component (all scalar attributes of adapters and cache)"),
 "C20-c-pending-higher-priority-forgotten": ("winning exception returns its own next transition, not the minimum", "two exceptions of different priority on one day, the higher one starting later", "caught as built"),
 "C20-d-rearm-dies-at-month-end": ("datetime_to_time via datetime(): day+1 not normalised at 24:00", "timer-driven run across a month end", "caught as built"),
 # ---- wave 5
 "C01-e-negative-zero-loses-sign": ("Real/Double constructor merges the None/int/float branches and loses the sign of -0.0", "a value of exactly negative zero built by the application, compared bitwise", "caught as built (boundary values include -0.0, octets compared with the reference)"),
 "C01-f-bitstring-setitem-not-reduced": ("BitString.__setitem__ stores int(value) instead of reducing it to a bit", "a bit string filled by item assignment with a value other than 0/1 (True, 2, ...)", "missed at first (bit strings only built by the constructor); caught after bit strings filled by item assignment were added"),
 "C02-e-length-escape-elif-became-if": ("Tag.decode length escape chain: elif became if", "a tag whose content is exactly 255 octets", "caught as built (length 255 is one of the boundary lengths)"),
 "C02-f-boolean-keeps-stale-tagdata": ("Tag.decode no longer clears tagData for an application boolean", "one Tag object decoded into repeatedly, a boolean after a tag with content", "missed at first (every decode used a fresh Tag); caught after the lists of part (a) were also decoded into one re-used Tag object"),
 "C03-e-fast-path-skips-empty-list-decode": ("APCISequence.decode returns early when there is no service data", "a service PDU whose only parameter is an empty untagged list", "caught as built (list length 0)"),
 "C03-f-any-scan-tracks-open-contexts-in-a-set": ("Any.decode finds the end of the value with a set of open context numbers instead of a depth", "a value inside an Any that opens the same context number twice at once (COVSubscription, nested PropertyValue)", "missed at first (Any contents came from a palette of nine types and cast_out never runs Any.decode); caught after every constructed value of the registry was put inside an Any on the wire under enclosing contexts 0..3"),
 "C04-e-unconfirmed-request-completes-active-iocb": ("ApplicationIOController.request sends unconfirmed requests through _app_request, which completes the active IOCB of that address", "the application sends an unconfirmed request of its own to a peer while a confirmed IOCB to that peer is outstanding", "missed at first (the client application only sent its confirmed requests); caught after 'the client sends an unconfirmed request to the same peer' became an explorer event"),
 "C04-f-segmented-retry-count-reset": ("retry count of a segmented request starts over with every retry", "segmented request whose segments are acknowledged while the final answer never comes, retries >= 1", "caught as built (lasso detection in the closures and the retransmission count)"),
 "C05-e-nak-trim-without-modulo-at-wrap": ("ServerSSM trims the window received since the last ack before a negative ack, count computed without modulo 256", "request of more than 256 segments, window size not dividing 256, one lost/duplicated frame in the window straddling the wrap", "caught as built (single faults around the wrap of 260-segment transfers)"),
 "C05-f-short-wait-after-early-first-response-segment": ("ClientSSM waits one segment timeout instead of four after an early first response segment", "request and response both segmented, the final SegmentACK of the request lost, equal segment timeouts", "caught as built (single-fault sweep)"),
 "C06-e-second-parked-packet-without-dadr": ("NSAP.indication parks the second packet for an unknown network before it is addressed", "cold cache and two packets for the same remote network before the I-Am-Router-To-Network comes back", "caught as built (bursts with a cold cache)"),
 "C06-f-hop-zero-encoded-255": ("NPCI.encode writes a hop count of 0 as 255", "a message whose hop count is exhausted at the last router", "caught as built"),
 "C07-e-update-drops-nak": ("APCI.update no longer copies apduNak", "a negative SegmentACK going through the typed class", "caught as built"),
 "C07-f-decode-shares-source-payload": ("APDU.decode no longer takes its own copy of the payload", "the source buffer is written to after decoding", "missed at first (nobody touched the source after decoding); caught after 'the decoded payload does not change when the source buffer is written' was added"),
 "C08-e-dlen-signed-octet": ("NPCI.decode reads DLEN/SLEN as a signed octet", "a DADR/SADR of 128 octets or more", "caught as built (address lengths up to 255)"),
 "C08-f-routing-table-portinfo-carried-over": ("routing-table decode helper carries port info over to the next entry", "a table in which an entry with empty port info follows one with non-empty port info", "caught as built"),
 "C09-e-table-encoders-not-idempotent": ("BDT/FDT table messages build their body in their own pduData and append to it on every encode", "the same message object encoded a second time", "missed at first (each message encoded once); caught after every message was encoded a second time"),
 "C09-f-codec-logs-bad-header-and-carries-on": ("AnnexJCodec logs an undecodable BVLC header and carries on with the half-decoded message", "a cut, padded or runt datagram of a function whose decoder accepts an empty body", "caught as built"),
 "C10-f-transaction-lists-shared-at-class-level": ("StateMachineAccessPoint defaults moved to class level: the two transaction lists are shared by all instances", "two devices in one interpreter, one of them in the middle of a transaction; or a device built after one was abandoned mid-transaction", "missed at first (one device per history, every history ran to quiescence); caught after the neighbour part (two devices side by side / successor of an abandoned device) was added"),
 "C10-g-dcc-undefined-value-counts-as-disabled": ("the DeviceCommunicationControl filter treats every state other than enable/disableInitiation as disabled", "a corrupted DeviceCommunicationControl request carrying an undefined or no enable-disable value", "missed at first (the device under test did not offer the service); caught after DeviceCommunicationControl frames joined the base frames, with a reference for rightful silence"),
}

# seeded changes whose own property's check is silent but a sibling property's check decides them
DETECTED_BY = {}


def main():
    rerun = len(sys.argv) > 1 and sys.argv[1] == "run"
    rows = []
    for name in sorted(os.listdir(ROOT)):
        d = os.path.join(ROOT, name)
        mp = os.path.join(d, "meta.json")
        if not os.path.exists(mp):
            continue
        meta = json.load(open(mp))
        what, needs, story = INFO.get(name, (meta.get("what", ""), meta.get("needs", ""), meta.get("history", "")))
        meta.update({"what": what, "needs_to_manifest": needs, "history": story})
        if rerun or "check_result" not in meta:
            q = seedrun.qualify(d)
            p = DETECTED_BY.get(name, meta["property"])
            r = seedrun.check(d, "quick", [p])
            meta["checked_with_property"] = p
            meta["qualification"] = {k: q[k] for k in ("qualified", "suite_green_with_change", "demo_passes_with_change", "demo_passes_without_change")}
            meta["check_result"] = {"command": "./check %s --tier quick (against a scratch copy of /repo with patch.diff applied)" % p,
                                    "exit": r[p]["exit"], "violations": r[p]["violations"], "first_violation": r[p]["first"][:400]}
            meta["ran"] = ["tools/seedrun.py qualify seeded/%s" % name, "tools/seedrun.py check seeded/%s quick" % name]
        json.dump(meta, open(mp, "w"), indent=1)
        cr = meta["check_result"]
        sig = ""
        if "signature=" in cr["first_violation"]:
            sig = cr["first_violation"].split("signature=")[1].split(" count=")[0][:90].replace("|", " / ")
        by = meta.get("checked_with_property", meta["property"])
        rows.append("| %s | %s | %s | %s | %s |" % (name, what, needs, "%s: exit %d, `%s`" % (by, cr["exit"], sig) if cr["exit"] == 1 else "**not caught** (exit %d)" % cr["exit"], story))
    n_built = sum(1 for r in rows if "| caught as built" in r)
    n_sib = sum(1 for r in rows if "| not caught by " in r)
    sys.stderr.write("seeds=%d caught-as-built=%d sibling=%d strengthened=%d\n" % (len(rows), n_built, n_sib, len(rows) - n_built - n_sib))
    print("| seeded change | what was changed | what it needs to manifest | quick check of its property | history |")
    print("|---|---|---|---|---|")
    print("\n".join(rows))


if __name__ == "__main__":
    main()
