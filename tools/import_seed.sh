#!/bin/bash
# tools/import_seed.sh <wt dir> <a|b|c> <seed name>   copy an adversary's alternative into seeded/, qualify it and run its property's check
set -e
cd "$(dirname "$0")/.."
wt=$1; ab=$2; name=$3
mkdir -p seeded/$name
cp $wt/out/$ab/patch.diff $wt/out/$ab/demo.py $wt/out/$ab/notes.md seeded/$name/
pp=${name%%-*}
echo "{\"id\": \"$name\", \"property\": \"$pp\", \"source\": \"independent sub-agent given only the property text and a scratch worktree\"}" > seeded/$name/meta.json
echo "== $name"
python3 tools/seedrun.py qualify seeded/$name | python3 -c "import json,sys; r=json.load(sys.stdin); print({k:r[k] for k in ('qualified','suite_green_with_change','demo_passes_with_change','demo_passes_without_change')})"
python3 tools/seedrun.py check seeded/$name ${4:-quick} | python3 -c "import json,sys; r=json.load(sys.stdin); [print(p, 'exit', v['exit'], 'violations', v['violations'], v['first'][:220]) for p,v in r.items()]"
